"""Running `whatshap phase` in-process under the interposed monitors, and the judges (oracles) that several
properties share. Judges return lists of violation dicts {"mech", "msg"} and update counters."""
import os
import traceback

from wv import launch
from wv.oracle import mec, vcfdiff, vcftext


def run_phase(sim, out_path, phase_inputs=None, **opts):
    """Returns (status, trace, message). status: 'ok' | 'cle' (CommandLineError) | 'crash'."""
    from whatshap.cli import CommandLineError
    from whatshap.cli.phase import run_whatshap

    launch.install()
    launch.begin()
    kw = dict(
        phase_input_files=phase_inputs if phase_inputs is not None else list(sim.bams),
        variant_file=sim.vcf,
        output=out_path,
        write_command_line_header=False,
    )
    via_cli = opts.pop("via_cli", False)
    kw.update(opts)
    if via_cli:
        return _run_phase_cli(kw)
    try:
        run_whatshap(**kw)
    except CommandLineError as e:
        return "cle", launch.end(), str(e)
    except Exception:
        return "crash", launch.end(), traceback.format_exc()[-2500:]
    return "ok", launch.end(), ""


def phase_argv(kw):
    """The `whatshap phase ...` command line equivalent to run_whatshap(**kw); option names are taken from whatshap's own
    argument parser (by dest), so only values that differ from 'not given' are spelled out."""
    import argparse

    from whatshap.cli import phase as ph

    parser = argparse.ArgumentParser()
    ph.add_arguments(parser)
    by_dest = {}
    for a in parser._actions:
        if a.option_strings:
            by_dest.setdefault(a.dest, a)
    argv = ["phase"]
    for key, val in kw.items():
        if key in ("variant_file", "phase_input_files", "write_command_line_header"):
            continue
        if key == "reference":
            if val is False:
                argv.append("--no-reference")
            elif val:
                argv += ["--reference", val]
            continue
        a = by_dest[key]
        opt = a.option_strings[-1]
        if isinstance(a, argparse._StoreTrueAction):
            if val:
                argv.append(opt)
        elif isinstance(a, argparse._StoreFalseAction):
            if not val:
                argv.append(opt)
        elif isinstance(a, argparse._AppendAction):
            for x in val or []:
                argv += [opt, str(x)]
        elif val is not None:
            argv += [opt, str(val)]
    return argv + [kw["variant_file"]] + list(kw["phase_input_files"])


def cli_main(argv):
    """Run whatshap's command-line entry point (argument parser, defaults, validate, main) in-process.
    Returns (status, message): ok / cle (non-zero exit: usage or CommandLineError) / crash (uncaught exception)."""
    import logging

    import whatshap.__main__ as wm

    errors = []

    class _Capture(logging.Handler):
        def emit(self, record):
            errors.append(record.getMessage())

    root = logging.getLogger()
    cap = _Capture(level=logging.ERROR)
    root.addHandler(cap)
    level = root.manager.disable
    logging.disable(logging.WARNING)
    orig_setup = wm.setup_logging
    wm.setup_logging = lambda debug: None
    import contextlib
    import io

    buf = io.StringIO()
    try:
        with contextlib.redirect_stderr(buf):
            wm.main(argv)
    except SystemExit as e:
        if e.code not in (0, None):
            return "cle", "whatshap exited %r: %s %s (argv %r)" % (e.code, " | ".join(errors)[-800:], buf.getvalue()[-600:], argv)
    except Exception:
        return "crash", traceback.format_exc()[-2500:]
    finally:
        wm.setup_logging = orig_setup
        root.removeHandler(cap)
        logging.disable(level)
    return "ok", ""


def _run_phase_cli(kw):
    """Same run through whatshap's command-line entry point (argument parser, defaults, validate, main)."""
    import logging

    import whatshap.__main__ as wm

    argv = phase_argv(kw)
    errors = []

    class _Capture(logging.Handler):
        def emit(self, record):
            errors.append(record.getMessage())

    root = logging.getLogger()
    cap = _Capture(level=logging.ERROR)
    root.addHandler(cap)
    level = root.manager.disable
    logging.disable(logging.WARNING)  # let ERROR records through to the capture handler only
    orig_setup = wm.setup_logging
    wm.setup_logging = lambda debug: None  # no stderr handler per run
    try:
        wm.main(argv)
    except SystemExit as e:
        if e.code not in (0, None):
            return "cle", launch.end(), "whatshap exited %r: %s (argv %r)" % (e.code, " | ".join(errors)[-800:], argv)
    except Exception:
        return "crash", launch.end(), traceback.format_exc()[-2500:]
    finally:
        wm.setup_logging = orig_setup
        root.removeHandler(cap)
        logging.disable(level)
    # the command line always records itself in the header; drop that line like write_command_line_header=False does
    out = kw["output"]
    with open(out) as fh:
        lines = [l for l in fh if not l.startswith("##commandline=")]
    with open(out, "w") as fh:
        fh.writelines(lines)
    return "ok", launch.end(), ""


def crash_violation(msg, what="whatshap phase"):
    last = msg.strip().splitlines()[-1] if msg.strip() else "?"
    return {"mech": "crash:" + last.split(":")[0][:60], "msg": "%s raised: %s" % (what, msg[-1500:])}


# ------------------------------------------------------------------ decoding the output


def decoded_sets(text, sample):
    """{(chrom, block): [(pos, (a0, a1))]} for one sample, via the text-level decoders; plus decoder tags seen."""
    meta, samples, recs = vcftext.parse(text)
    si = samples.index(sample)
    sets = {}
    tags = set()
    for r in recs:
        if not r["calls"]:
            continue
        d = vcftext.decode_call(r["calls"][si])
        if d is None:
            continue
        tag, block, al = d
        tags.add(tag)
        sets.setdefault((r["chrom"], block), []).append((r["pos"], al))
    return sets, tags


# ------------------------------------------------------------------ C02


def judge_truth(sim, out_text, samples, counters):
    """Every phase set must carry the true haplotype alleles up to one flip of the whole set."""
    viol = []
    for s in samples:
        sets, tags = decoded_sets(out_text, s)
        for (chrom, block), items in sets.items():
            vs = sim.variants[chrom]
            idx = {v.pos + 1: i for i, v in enumerate(vs)}
            same = flip = 0
            bad = []
            for pos, al in items:
                i = idx.get(pos)
                if i is None or al is None or len(al) != 2:
                    viol.append({"mech": "phased-unknown-variant", "msg": "%s %s:%d phased with alleles %r but is not a simulated variant" % (s, chrom, pos, al)})
                    continue
                t = (str(sim.haps[chrom][s][0][i]), str(sim.haps[chrom][s][1][i]))
                if t[0] == t[1]:
                    viol.append({"mech": "phased-homozygous-truth", "msg": "%s %s:%d truth is homozygous %r, output %r" % (s, chrom, pos, t, al)})
                    continue
                if tuple(al) == t:
                    same += 1
                elif tuple(al) == (t[1], t[0]):
                    flip += 1
                else:
                    bad.append((pos, al, t))
            counters["phased_variants_judged"] = counters.get("phased_variants_judged", 0) + len(items)
            counters["phase_sets_judged"] = counters.get("phase_sets_judged", 0) + 1
            if len(items) >= 2:
                counters["phase_sets_ge2"] = counters.get("phase_sets_ge2", 0) + 1
            if bad:
                viol.append({"mech": "wrong-alleles", "msg": "%s set %s:%s alleles not the truth's: %r" % (s, chrom, block, bad[:4])})
            elif same and flip:
                wrong = min(same, flip)
                kinds = sorted({vs[idx[p]].kind for p, al in items})
                viol.append(
                    {
                        "mech": "wrong-phase",
                        "msg": "%s phase set %s:%s (%d variants, kinds %s): %d agree with the truth, %d with its flip; e.g. %r"
                        % (s, chrom, block, len(items), kinds, same, flip, [(p, al) for p, al in items][:6]),
                        "n_wrong": wrong,
                        "set": (chrom, block),
                        "sample": s,
                    }
                )
    return viol


# ------------------------------------------------------------------ C03


def _components(positions, reads_positions, master=None):
    adj = {p: set() for p in positions}
    for ps in reads_positions:
        ps = [p for p in ps if p in adj]
        for p in ps[1:]:
            adj[ps[0]].add(p)
            adj[p].add(ps[0])
    if master:
        m = [p for p in master if p in adj]
        for p in m[1:]:
            adj[m[0]].add(p)
            adj[p].add(m[0])
    comp = {}
    for p in sorted(positions):
        if p in comp:
            continue
        stack = [p]
        comp[p] = p
        while stack:
            x = stack.pop()
            for y in adj[x]:
                if y not in comp:
                    comp[y] = p
                    stack.append(y)
    return comp


def family_genotype_classes(doc, chrom, family, trios):
    """From the *input VCF text*: per 0-based position of biallelic first-of-position records: 'retained' and
    'homozygous in some member' by own parsing."""
    si = {s: doc.samples.index(s) for s in family}
    out = {}
    seen = set()
    for r in doc.records:
        if r["chrom"] != chrom or len(r["alts"]) != 1:
            continue
        if r["pos"] in seen:
            continue
        seen.add(r["pos"])
        gts = {}
        missing = False
        for s in family:
            al, _ = vcftext.split_gt(r["calls"][si[s]].get("GT"))
            if al is None or "." in al:
                missing = True
                break
            gts[s] = sorted(int(a) for a in al)
        if missing:
            out[r["pos"] - 1] = ("missing", False)
            continue
        conflict = False
        for f, m, c in trios:
            ok = False
            for a in gts[f]:
                for b in gts[m]:
                    if sorted([a, b]) == gts[c]:
                        ok = True
            if not ok:
                conflict = True
        het = any(g[0] != g[1] for g in gts.values())
        hom = any(g[0] == g[1] for g in gts.values())
        if conflict:
            out[r["pos"] - 1] = ("conflict", False)
        elif not het:
            out[r["pos"] - 1] = ("allhom", False)
        else:
            out[r["pos"] - 1] = ("retained", hom)
    return out


def judge_components(sim, trace, out_text, counters, genetic_haplotyping=True, read_list_path=None):
    """PS/HP of every phased call == 1 + leftmost position of the read-connected component (solver reads from the trace)."""
    viol = []
    shapes = {"multi": 0, "interleaved": 0, "merged": 0}
    for inst in trace["instances"]:
        if "reads" not in inst:
            continue
        chrom, family = inst["chromosome"], inst["family"]
        positions = list(inst["positions"])
        reads_pos = [[p for p, a, q in r["vars"]] for r in inst["reads"]]
        master = None
        if inst["distrust"]:
            # genotypes are those of the result: a variant counts as heterozygous / homozygous for a member according to
            # the haplotype alleles the run produced; reads link only variants heterozygous in their own sample
            ids = inst.get("sample_ids") or {}
            het = {}
            hom_any = set()
            for s, srs in zip(family, inst.get("superreads", [])):
                hs = set()
                for v0, v1 in zip(srs[0], srs[1]):
                    g = (v0[1], v1[1])
                    if g in ((0, 1), (1, 0)):
                        hs.add(v0[0])
                    elif g in ((0, 0), (1, 1)):
                        hom_any.add(v0[0])
                het[ids.get(s)] = hs
            reads_pos = [[p for p, a, q in r["vars"] if p in het.get(r["sample_id"], ())] for r in inst["reads"]]
            if len(family) > 1 and genetic_haplotyping:
                master = sorted(hom_any)
        elif len(family) > 1 and genetic_haplotyping:
            cls = family_genotype_classes(sim.doc, chrom, family, inst["trios"])
            master = sorted(p for p in positions if cls.get(p, ("", False)) == ("retained", True))
        comp = _components(positions, reads_pos, master)
        if master:
            base = _components(positions, reads_pos, None)
            if len({base[p] for p in master}) >= 2:
                shapes["merged"] += 1
        counters["component_instances"] = counters.get("component_instances", 0) + 1
        comps = {}
        for p, c in comp.items():
            comps.setdefault(c, []).append(p)
        big = sorted((min(v), max(v)) for v in comps.values() if len(v) > 1)
        if len(big) >= 2:
            shapes["multi"] += 1
            if any(b[0] < a[1] for a, b in zip(big, big[1:])):
                shapes["interleaved"] += 1
        for s in family:
            sets, tags = decoded_sets(out_text, s)
            by_pos = {}
            for (c, block), items in sets.items():
                if c != chrom:
                    continue
                for pos, al in items:
                    by_pos[pos - 1] = block
            for p, block in by_pos.items():
                counters["ps_values_checked"] = counters.get("ps_values_checked", 0) + 1
                if p not in comp:
                    viol.append({"mech": "phased-inaccessible", "msg": "%s %s:%d is phased (set %s) but was not among the solver's columns" % (s, chrom, p + 1, block)})
                    continue
                if block != comp[p] + 1:
                    other = [q for q, b in by_pos.items() if b == block and comp.get(q) != comp[p]]
                    viol.append(
                        {
                            "mech": "ps-not-leftmost-of-component",
                            "msg": "%s %s:%d carries phase set %s; its read-connected component is %r with leftmost variant %d (expected id %d)%s"
                            % (s, chrom, p + 1, block, sorted(x + 1 for x in comps[comp[p]])[:8], comp[p] + 1, comp[p] + 1,
                               "; same set also on %r of another component" % [q + 1 for q in other[:3]] if other else ""),
                        }
                    )
    if read_list_path:
        names = set()
        with open(read_list_path) as fh:
            next(fh)
            for l in fh:
                names.add(l.split("\t")[0])
        tn = {r["name"] for i in trace["instances"] for r in i.get("reads", [])}
        if names != tn:
            viol.append({"mech": "read-list-names", "msg": "read list names differ from solver reads: only in list %r, only in solver %r" % (sorted(names - tn)[:3], sorted(tn - names)[:3])})
        counters["read_lists_checked"] = counters.get("read_lists_checked", 0) + 1
    for k, v in shapes.items():
        counters["shape_" + k] = counters.get("shape_" + k, 0) + v
    return viol, shapes


# ------------------------------------------------------------------ C07 (pipeline)


def judge_cap(trace, k, counters):
    viol = []
    for inst in trace["instances"]:
        if "reads" not in inst:
            continue
        fam = inst["family"]
        per = max(1, k // len(fam))
        for sc in inst.get("select", []):
            counters["select_calls_checked"] = counters.get("select_calls_checked", 0) + 1
            if sc["k"] != per:
                viol.append({"mech": "per-sample-cap", "msg": "family of %d with --internal-downsampling %d selected with per-sample cap %d (expected %d)" % (len(fam), k, sc["k"], per)})
        sel = inst.get("select", [])
        if sel and len(sel) == len(fam) and sum(sc["n_out"] for sc in sel) != len(inst["reads"]):
            # conservation between the stages: the solver gets exactly the reads selected for the members of the family
            viol.append({"mech": "selected-reads-not-handed-to-solver", "msg": "%s %s: %d reads selected for the family members (%r), %d reads in the solver's read set" % (
                inst["chromosome"], fam, sum(sc["n_out"] for sc in sel), [sc["n_out"] for sc in sel], len(inst["reads"]))})
        positions = inst["positions"]
        worst = 0
        for p in positions:
            act = sum(1 for r in inst["reads"] if r["vars"][0][0] <= p <= r["vars"][-1][0])
            worst = max(worst, act)
            if act > k and len(fam) <= k:
                viol.append({"mech": "solver-column-above-cap", "msg": "%s %s: column %d has %d active reads, cap %d" % (inst["chromosome"], fam, p + 1, act, k)})
                break
        counters["solver_columns_checked"] = counters.get("solver_columns_checked", 0) + len(positions)
        counters["max_active_seen_at_k%d" % k] = max(counters.get("max_active_seen_at_k%d" % k, 0), worst)
    return viol


# ------------------------------------------------------------------ C01 (witness of captured instances)


def instance_to_mec(inst):
    fam = inst["family"]
    ids = inst.get("sample_ids") or {}
    id2ind = {ids[s]: k for k, s in enumerate(fam) if s in ids}
    reads = []
    for r in inst["reads"]:
        if r["sample_id"] not in id2ind:
            return None
        reads.append({"ind": id2ind[r["sample_id"]], "vars": [[p, a, q] for p, a, q in r["vars"]]})
    return {
        "n_ind": len(fam),
        "triples": [[fam.index(f), fam.index(m), fam.index(c)] for f, m, c in inst["trios"]],
        "positions": list(inst["positions"]),
        "reads": reads,
        "genotypes": [inst["genotypes"][s] for s in fam],
        "gls": [inst["gls"][s] for s in fam] if inst["distrust"] else None,
        "recomb": list(inst["recomb"]),
        "distrust": inst["distrust"],
    }


def judge_witness(trace, counters, brute_limit=14):
    viol = []
    for inst in trace["instances"]:
        if "reads" not in inst or "partition" not in inst or not inst["positions"]:
            continue
        mi = instance_to_mec(inst)
        if mi is None or any(a not in (0, 1) for r in mi["reads"] for _, a, _ in r["vars"]):
            continue
        tables, actives = mec.column_tables(mi) if max((len(mec.active_reads(mi, c)) for c in range(len(mi["positions"]))), default=0) <= 16 else (None, None)
        if tables is None:
            continue
        rc = mec.recost(mi, inst["partition"], inst["transmission"], tables, actives)
        counters["captured_instances_recosted"] = counters.get("captured_instances_recosted", 0) + 1
        if rc != inst["cost"]:
            viol.append({"mech": "captured-witness", "msg": "%s %s: solver reported cost %s, its partition/transmission re-cost to %s" % (inst["chromosome"], inst["family"], inst["cost"], rc)})
        nT = 4 ** len(mi["triples"])
        if len(mi["reads"]) <= brute_limit and (1 << len(mi["reads"])) * nT * nT <= (1 << 21):
            opt = mec.solve(mi)[0]
            counters["captured_instances_bruteforced"] = counters.get("captured_instances_bruteforced", 0) + 1
            if opt != inst["cost"]:
                viol.append({"mech": "captured-cost", "msg": "%s %s: solver cost %s, brute-force optimum %s" % (inst["chromosome"], inst["family"], inst["cost"], opt)})
    return viol


# ------------------------------------------------------------------ C04


def judge_passthrough(in_path, out_path, doc, targets, chromosomes, tag, only_snvs, distrust, counters, allow_multiallelic=False):
    """htslib record differ between input and output of `phase`."""
    a = vcfdiff.load(in_path)
    try:
        b = vcfdiff.load(out_path)
    except (OSError, ValueError) as e:
        raw = open(out_path, "rb").read()
        return [{"mech": "output-not-readable-by-htslib" + (":nul-byte" if b"\x00" in raw else ""), "msg": "htslib cannot read the output VCF: %s" % e}]
    first_pos = {}
    for i, r in enumerate(a["records"]):
        first_pos.setdefault((r["chrom"], r["pos"]), i)

    def policy(rec, sample, ga, gb):
        counters["calls_compared"] = counters.get("calls_compared", 0) + 1
        target = sample in targets and (not chromosomes or rec["chrom"] in chromosomes)
        if not target:
            if ga != gb:
                return "call of a non-selected sample/chromosome changed %r -> %r" % (ga, gb)
            return None
        if ga == gb:
            return None  # passthrough
        (xa, pa), (xb, pb) = ga, gb
        if not distrust and vcfdiff.multiset(xa) != vcfdiff.multiset(xb):
            return "allele multiset changed %r -> %r" % (xa, xb)
        if pb:
            counters["phased_calls_judged"] = counters.get("phased_calls_judged", 0) + 1
            if xb is None or None in xb or len(set(xb)) < 2:
                return "non-heterozygous call marked phased %r" % (xb,)
            if len(rec["alts"]) != 1 and not (allow_multiallelic and len(rec["alts"]) > 1):
                return "multi-ALT/no-ALT record marked phased %r" % (xb,)
            if only_snvs and not (len(rec["ref"]) == 1 and all(len(x) == 1 for x in rec["alts"])):
                return "non-SNV marked phased with --only-snvs"
        return None

    ignore = ("PS", "HP")
    diffs = vcfdiff.compare(a, b, policy, ignore_format=ignore, header_may_lose=())
    # the new tag must be defined
    if tag not in b["header"]["formats"]:
        diffs.append("output header does not define %s" % tag)
    # HP/PS values may only change on target samples of selected chromosomes
    for x, y in zip(a["records"], b["records"]):
        for s in a["header"]["samples"]:
            target = s in targets and (not chromosomes or x["chrom"] in chromosomes)
            if not target:
                for k in ignore:
                    if x["samples"][s].get(k) != y["samples"].get(s, {}).get(k):
                        diffs.append("%s:%d sample %s %s changed on a non-selected sample/chromosome" % (x["chrom"], x["pos"], s, k))
    counters["records_compared"] = counters.get("records_compared", 0) + len(a["records"])
    out = [{"mech": "passthrough-diff", "msg": d} for d in diffs[:5]]
    # INFO keys on the text level: pysam hides END from record.info, so the htslib differ above cannot see it come or go
    try:
        ta = vcftext.parse(_read_text(in_path))[2]
        tb = vcftext.parse(_read_text(out_path))[2]
    except Exception:
        ta = tb = []
    if len(ta) == len(tb):
        for x, y in zip(ta, tb):
            ka, kb = _info_keys(x.get("info")), _info_keys(y.get("info"))
            counters["info_key_sets_compared"] = counters.get("info_key_sets_compared", 0) + 1
            if ka != kb:
                symbolic = any(str(alt).startswith("<") for alt in x.get("alts") or [])
                if kb - ka == {"END"} and not (ka - kb) and symbolic:
                    mech = "info-key-added:END-on-symbolic-alt"
                else:
                    mech = "passthrough-diff"
                out.append({"mech": mech, "msg": "%s:%s INFO keys %r -> %r (ALT %r)" % (x.get("chrom"), x.get("pos"), sorted(ka), sorted(kb), x.get("alts"))})
                break
    return out


def _read_text(path):
    import gzip

    with (gzip.open(path, "rt") if str(path).endswith(".gz") else open(path)) as fh:
        return fh.read()


def _info_keys(info):
    if info in (None, ".", ""):
        return set()
    if isinstance(info, dict):
        return set(info)
    return {kv.split("=", 1)[0] for kv in str(info).split(";") if kv}
