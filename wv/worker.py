"""Worker process: runs the cases of one shard and appends JSON lines to its out file."""
import glob
import importlib
import json
import logging
import os
import random
import sys
import traceback


def main():
    cid, tier, seed, lane, flavour, idxfile, out = sys.argv[1:8]
    seed = int(seed)
    with open(idxfile) as fh:
        indices = json.load(fh)
    fh = open(out, "a")

    def emit(rec):
        fh.write(json.dumps(rec, default=str) + "\n")
        fh.flush()

    import whatshap

    ovl = os.environ.get("WV_OVERLAY")
    if ovl and not os.path.realpath(whatshap.__file__).startswith(os.path.realpath(ovl)):
        raise SystemExit("whatshap imported from %s, not from the overlay %s" % (whatshap.__file__, ovl))
    logging.disable(logging.CRITICAL)
    mod = importlib.import_module("wv.checks." + cid.lower())
    if hasattr(mod, "worker_init"):
        mod.worker_init(tier, lane, flavour)
    sanlog = os.environ.get("WV_SANLOG")
    pre = "vg" if flavour == "vg" else "san"
    seen_sizes = {}
    from wv import sanlog as _sanlog

    for idx in indices:
        emit({"start": idx})
        rng = random.Random("%d:%s:%s:%d" % (seed, cid, lane, idx))
        try:
            # a lane called "vg-<base>" runs the cases of lane <base> under valgrind
            res = mod.run_case(idx, rng, tier, lane.split("-", 1)[1] if lane.startswith("vg-") else lane)
        except Exception:
            emit({"harness_error": traceback.format_exc()[-3000:], "idx": idx})
            continue
        res["idx"] = idx
        if sanlog:
            reports = []
            for p in glob.glob(sanlog + ".*"):
                sz = os.path.getsize(p)
                old = seen_sizes.get(p, 0)
                if sz > old:
                    with open(p, errors="replace") as lf:
                        lf.seek(old)
                        reports.append(lf.read())
                    seen_sizes[p] = sz
            if reports:
                reps = _sanlog.parse("\n".join(reports))
                c = res.setdefault("counters", {})
                for rep in reps:
                    if rep["repo"]:
                        c[pre + "_repo_reports"] = c.get(pre + "_repo_reports", 0) + 1
                        res.setdefault("violations", []).append(
                            {
                                "mech": "sanitizer:%s:%s" % (rep["kind"], rep["frame"]),
                                "msg": rep["text"][:2500],
                            }
                        )
                    else:
                        c[pre + "_thirdparty_reports"] = c.get(pre + "_thirdparty_reports", 0) + 1
            res.setdefault("counters", {})[pre + "_cases"] = 1
        emit({"result": res})
    fh.close()


if __name__ == "__main__":
    main()
