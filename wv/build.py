"""Build what is checked: an overlay of /repo's *current working tree*.

ensure(flavour) -> directory holding compiled extension modules built from the
working tree's native sources (cached by content hash under $WV_CACHE).
overlay(flavour) -> a fresh directory that contains a copy of /repo/whatshap/**/*.py
plus symlinks to the cached extension modules; put it first on PYTHONPATH.

Nothing from /repo's in-tree *.so files is ever used (they may be stale).
"""
import fcntl
import hashlib
import os
import shutil
import subprocess
import sys
import sysconfig
import tempfile
import time
from concurrent.futures import ThreadPoolExecutor

REPO = os.environ.get("WV_REPO", "/repo")
CACHE = os.environ.get("WV_CACHE", "/var/tmp/wv-cache")
PY = os.environ.get("WV_PYTHON", "/venv/bin/python")
KEEP_BUILDS = 24

SAN_FLAGS = [
    "-O1",
    "-g",
    "-fno-omit-frame-pointer",
    "-fsanitize=address,undefined",
    "-fsanitize-recover=all",
    "-fno-sanitize=vptr",
]


def _native_files():
    out = [os.path.join(REPO, "setup.py")]
    for root, dirs, files in os.walk(os.path.join(REPO, "src")):
        dirs.sort()
        for f in sorted(files):
            out.append(os.path.join(root, f))
    for root, dirs, files in os.walk(os.path.join(REPO, "whatshap")):
        dirs.sort()
        for f in sorted(files):
            if f.endswith((".pyx", ".pxd")):
                out.append(os.path.join(root, f))
    return out


def native_key():
    h = hashlib.sha256()
    for p in _native_files():
        h.update(os.path.relpath(p, REPO).encode())
        h.update(b"\0")
        with open(p, "rb") as fh:
            h.update(fh.read())
        h.update(b"\0")
    return h.hexdigest()[:20]


_CAPTURE = r"""
import sys, json, os
import setuptools
captured = {}
def fake_setup(**kw):
    captured.update(kw)
setuptools.setup = fake_setup
import distutils.core
distutils.core.setup = fake_setup
sys.argv = ["setup.py", "build_ext"]
src = open("setup.py").read()
g = {"__name__": "__main__", "__file__": "setup.py"}
exec(compile(src, "setup.py", "exec"), g)
exts = []
for e in captured.get("ext_modules") or []:
    exts.append({
        "name": e.name,
        "sources": list(e.sources),
        "include_dirs": list(e.include_dirs),
        "extra_compile_args": list(e.extra_compile_args or []),
        "extra_link_args": list(e.extra_link_args or []),
        "undef_macros": list(e.undef_macros or []),
        "define_macros": [list(m) for m in (e.define_macros or [])],
        "libraries": list(e.libraries or []),
    })
print("\n" + json.dumps(exts))
"""


def _run(cmd, cwd, log):
    p = subprocess.run(cmd, cwd=cwd, stdout=subprocess.PIPE, stderr=subprocess.STDOUT, text=True)
    log.write("$ " + " ".join(cmd) + "\n" + p.stdout + "\n")
    if p.returncode != 0:
        raise BuildError("command failed: %s\n%s" % (" ".join(cmd), p.stdout[-4000:]))
    return p.stdout


class BuildError(Exception):
    pass


def _build(dest, flavour):
    """Copy native sources of the working tree into dest/tree and build there."""
    import json

    tree = os.path.join(dest, "tree")
    os.makedirs(tree)
    for p in _native_files():
        rel = os.path.relpath(p, REPO)
        os.makedirs(os.path.dirname(os.path.join(tree, rel)), exist_ok=True)
        shutil.copy2(p, os.path.join(tree, rel))
    # cythonize needs the package __init__ files to resolve module names
    for root, dirs, files in os.walk(os.path.join(REPO, "whatshap")):
        for f in files:
            if f == "__init__.py":
                rel = os.path.relpath(os.path.join(root, f), REPO)
                os.makedirs(os.path.dirname(os.path.join(tree, rel)), exist_ok=True)
                shutil.copy2(os.path.join(root, f), os.path.join(tree, rel))
    log = open(os.path.join(dest, "build.log"), "w")
    env = dict(os.environ)
    env.pop("PYTHONPATH", None)
    p = subprocess.run(
        [PY, "-c", _CAPTURE], cwd=tree, stdout=subprocess.PIPE, stderr=subprocess.PIPE, text=True, env=env
    )
    log.write(p.stderr)
    if p.returncode != 0:
        raise BuildError("cythonize failed:\n" + p.stderr[-4000:] + p.stdout[-2000:])
    # cythonize prints progress to stdout before our json; take the last line
    exts = json.loads(p.stdout.strip().splitlines()[-1])
    cflags = sysconfig.get_config_var("CFLAGS").split() if sys.executable == PY else None
    if cflags is None:
        out = subprocess.run(
            [
                PY,
                "-c",
                "import sysconfig,json;print(json.dumps([sysconfig.get_config_var(k) for k in "
                "('CFLAGS','CCSHARED','INCLUDEPY','EXT_SUFFIX')]))",
            ],
            stdout=subprocess.PIPE,
            text=True,
            env=env,
        ).stdout
        cflags_s, ccshared, incpy, extsuf = json.loads(out)
    else:
        cflags_s = sysconfig.get_config_var("CFLAGS")
        ccshared = sysconfig.get_config_var("CCSHARED")
        incpy = sysconfig.get_config_var("INCLUDEPY")
        extsuf = sysconfig.get_config_var("EXT_SUFFIX")
    base = cflags_s.split() + ccshared.split()
    if flavour == "san":
        base = [f for f in base if not f.startswith("-O")] + SAN_FLAGS
    jobs = []
    objdir = os.path.join(dest, "obj")
    for e in exts:
        for s in e["sources"]:
            obj = os.path.join(objdir, e["name"], s.replace("/", "_") + ".o")
            os.makedirs(os.path.dirname(obj), exist_ok=True)
            cmd = ["g++"] + base
            for m in e["define_macros"]:
                cmd.append("-D%s=%s" % (m[0], m[1]) if m[1] is not None else "-D%s" % m[0])
            for m in e["undef_macros"]:
                cmd.append("-U" + m)
            for d in e["include_dirs"]:
                cmd.append("-I" + d)
            cmd += ["-I" + incpy, "-c", s, "-o", obj] + e["extra_compile_args"]
            jobs.append((cmd, obj, e["name"]))

    def comp(job):
        cmd = job[0]
        p = subprocess.run(cmd, cwd=tree, stdout=subprocess.PIPE, stderr=subprocess.STDOUT, text=True)
        return cmd, p.returncode, p.stdout

    with ThreadPoolExecutor(max_workers=min(16, os.cpu_count() or 4)) as ex:
        for cmd, rc, out in ex.map(comp, jobs):
            log.write("$ " + " ".join(cmd) + "\n" + out + "\n")
            if rc != 0:
                raise BuildError("compile failed: %s\n%s" % (" ".join(cmd), out[-4000:]))
    libdir = os.path.join(dest, "lib")
    for e in exts:
        parts = e["name"].split(".")
        outp = os.path.join(libdir, *parts[:-1], parts[-1] + extsuf)
        os.makedirs(os.path.dirname(outp), exist_ok=True)
        objs = [j[1] for j in jobs if j[2] == e["name"]]
        cmd = ["g++", "-shared"] + objs + ["-o", outp] + e["extra_link_args"]
        if flavour == "san":
            cmd += ["-fsanitize=address,undefined"]
        for l in e["libraries"]:
            cmd.append("-l" + l)
        _run(cmd, tree, log)
    log.close()
    # keep generated .cpp of the pyx (needed for sanitizer frame attribution); drop objects
    shutil.rmtree(objdir, ignore_errors=True)


def _prune():
    try:
        ents = [
            os.path.join(CACHE, d)
            for d in os.listdir(CACHE)
            if os.path.isdir(os.path.join(CACHE, d)) and (d.startswith("plain-") or d.startswith("san-"))
        ]
    except FileNotFoundError:
        return
    ents.sort(key=lambda p: os.path.getmtime(p), reverse=True)
    for p in ents[KEEP_BUILDS:]:
        shutil.rmtree(p, ignore_errors=True)


def ensure(flavour="plain"):
    """Return the lib directory with compiled extensions for the working tree."""
    assert flavour in ("plain", "san")
    os.makedirs(CACHE, exist_ok=True)
    key = native_key()
    dest = os.path.join(CACHE, "%s-%s" % (flavour, key))
    ok = os.path.join(dest, "OK")
    if os.path.exists(ok):
        os.utime(dest)
        return os.path.join(dest, "lib")
    lock = open(os.path.join(CACHE, ".lock-%s" % flavour), "w")
    fcntl.flock(lock, fcntl.LOCK_EX)
    try:
        if os.path.exists(ok):
            return os.path.join(dest, "lib")
        if os.path.exists(dest):
            shutil.rmtree(dest)
        tmp = tempfile.mkdtemp(prefix="building-", dir=CACHE)
        try:
            t0 = time.time()
            _build(tmp, flavour)
            with open(os.path.join(tmp, "OK"), "w") as fh:
                fh.write("%.1f\n" % (time.time() - t0))
            os.rename(tmp, dest)
        except BaseException:
            # keep the log for diagnosis
            try:
                shutil.copy2(os.path.join(tmp, "build.log"), os.path.join(CACHE, "last-failed-build.log"))
            except OSError:
                pass
            shutil.rmtree(tmp, ignore_errors=True)
            raise
        _prune()
        return os.path.join(dest, "lib")
    finally:
        fcntl.flock(lock, fcntl.LOCK_UN)
        lock.close()


def overlay(flavour="plain", dest=None):
    """Fresh directory: working-tree *.py of whatshap + symlinks to built extensions."""
    lib = ensure(flavour)
    if dest is None:
        os.makedirs(os.path.join(CACHE, "run"), exist_ok=True)
        dest = tempfile.mkdtemp(prefix="ovl-", dir=os.path.join(CACHE, "run"))
    src = os.path.join(REPO, "whatshap")
    for root, dirs, files in os.walk(src):
        dirs[:] = [d for d in dirs if d != "__pycache__"]
        rel = os.path.relpath(root, REPO)
        os.makedirs(os.path.join(dest, rel), exist_ok=True)
        for f in files:
            if f.endswith((".py", ".pyi", ".pxd")):
                shutil.copy2(os.path.join(root, f), os.path.join(dest, rel, f))
    for root, dirs, files in os.walk(lib):
        rel = os.path.relpath(root, lib)
        for f in files:
            if f.endswith(".so"):
                d = os.path.join(dest, rel)
                os.makedirs(d, exist_ok=True)
                os.symlink(os.path.join(root, f), os.path.join(d, f))
    return dest


def san_env(logprefix):
    """Environment additions to run stock python with the sanitizer build."""
    asan = subprocess.run(["gcc", "-print-file-name=libasan.so"], stdout=subprocess.PIPE, text=True).stdout.strip()
    stdcpp = subprocess.run(
        ["gcc", "-print-file-name=libstdc++.so"], stdout=subprocess.PIPE, text=True
    ).stdout.strip()
    ubsan = subprocess.run(["gcc", "-print-file-name=libubsan.so"], stdout=subprocess.PIPE, text=True).stdout.strip()
    pre = [asan]
    if os.path.sep in ubsan:
        pre.append(ubsan)
    pre.append(stdcpp)
    return {
        "LD_PRELOAD": " ".join(pre),
        "ASAN_OPTIONS": "detect_leaks=0:halt_on_error=0:abort_on_error=0:allocator_may_return_null=1:"
        "handle_segv=1:log_path=%s.asan" % logprefix,
        "UBSAN_OPTIONS": "print_stacktrace=1:halt_on_error=0:log_path=%s.ubsan" % logprefix,
        "PYTHONMALLOC": "malloc",
    }


if __name__ == "__main__":
    fl = sys.argv[1] if len(sys.argv) > 1 else "plain"
    t0 = time.time()
    print(ensure(fl), "%.1fs" % (time.time() - t0))
