"""Runner: distributes the cases of one check over subprocess workers, watches them,
classifies violations against known_findings.json, writes evidence and replays.

Exit codes: 0 held (or only known findings), 1 violation, 2 inconclusive.
"""
import hashlib
import importlib
import json
import os
import shutil
import signal
import subprocess
import sys
import tempfile
import time

from . import build

VERIF = os.path.dirname(os.path.dirname(os.path.abspath(__file__)))
NWORKERS = int(os.environ.get("WV_WORKERS", "16"))


def load_known():
    p = os.path.join(VERIF, "known_findings.json")
    try:
        with open(p) as fh:
            d = json.load(fh)
    except FileNotFoundError:
        return {}
    out = {}
    for f in d.get("findings", []):
        out[(f["property"], f["key"])] = f
    return out


def case_seed(seed, cid, lane, idx):
    return "%d:%s:%s:%d" % (seed, cid, lane, idx)


class Worker:
    def __init__(self, cid, tier, seed, lane, flavour, indices, env, scratch, wid):
        self.cid, self.tier, self.seed, self.lane, self.flavour = cid, tier, seed, lane, flavour
        self.pending = list(indices)
        self.env = env
        self.scratch = scratch
        self.wid = wid
        self.generation = 0
        self.proc = None
        self.results = []
        self.crashes = []
        self.timeouts = []
        self.harness_errors = []
        self.last_progress = time.time()
        self.last_size = 0
        self.out = None
        self.consumed = 0

    def start(self):
        self.generation += 1
        self.out = os.path.join(self.scratch, "w%s-%d.jsonl" % (self.wid, self.generation))
        self.err = os.path.join(self.scratch, "w%s-%d.stderr" % (self.wid, self.generation))
        idxfile = os.path.join(self.scratch, "w%s-%d.idx" % (self.wid, self.generation))
        with open(idxfile, "w") as fh:
            json.dump(self.pending, fh)
        open(self.out, "w").close()
        wdir = os.path.join(self.scratch, "cwd-%s" % self.wid)
        os.makedirs(wdir, exist_ok=True)
        pre = []
        if self.flavour == "vg":
            # valgrind memcheck over the plain build: uninitialised-value use and invalid accesses in the native code
            pre = ["valgrind", "-q", "--error-limit=no", "--leak-check=no", "--num-callers=30", "--fullpath-after=", "--log-file=%s.%%p" % self.env["WV_SANLOG"]]
        cmd = pre + [
            build.PY,
            "-m",
            "wv.worker",
            self.cid,
            self.tier,
            str(self.seed),
            self.lane,
            self.flavour,
            idxfile,
            self.out,
        ]
        self.proc = subprocess.Popen(
            cmd, env=self.env, cwd=wdir, stdout=open(self.err, "w"), stderr=subprocess.STDOUT, stdin=subprocess.DEVNULL
        )
        self.last_progress = time.time()
        self.last_size = 0
        self.consumed = 0

    def _read_new(self):
        """Parse complete new lines from the out file."""
        with open(self.out) as fh:
            fh.seek(self.consumed)
            data = fh.read()
        nl = data.rfind("\n")
        if nl < 0:
            return []
        chunk = data[: nl + 1]
        self.consumed += len(chunk.encode())
        recs = []
        for line in chunk.splitlines():
            if line.strip():
                recs.append(json.loads(line))
        return recs

    def poll(self, watchdog):
        """Returns True when this worker has nothing more to do."""
        recs = self._read_new()
        for r in recs:
            self.last_progress = time.time()
            if "start" in r:
                self.current = r["start"]
            elif "result" in r:
                self.results.append(r["result"])
                if self.pending and self.pending[0] == r["result"]["idx"]:
                    self.pending.pop(0)
                else:
                    try:
                        self.pending.remove(r["result"]["idx"])
                    except ValueError:
                        pass
                self.current = None
            elif "harness_error" in r:
                self.harness_errors.append(r)
                try:
                    self.pending.remove(r["idx"])
                except ValueError:
                    pass
                self.current = None
        rc = self.proc.poll()
        if rc is None:
            if time.time() - self.last_progress > watchdog:
                self.proc.kill()
                self.proc.wait()
                cur = getattr(self, "current", None)
                if cur is None and self.pending:
                    cur = self.pending[0]
                self.timeouts.append(cur)
                if cur in self.pending:
                    self.pending.remove(cur)
                if self.pending:
                    self.start()
                    return False
                return True
            return False
        # process ended: drain
        for r in self._read_new():
            if "result" in r:
                self.results.append(r["result"])
                try:
                    self.pending.remove(r["result"]["idx"])
                except ValueError:
                    pass
                self.current = None
            elif "start" in r:
                self.current = r["start"]
            elif "harness_error" in r:
                self.harness_errors.append(r)
                try:
                    self.pending.remove(r["idx"])
                except ValueError:
                    pass
                self.current = None
        if rc == 0 and not self.pending:
            return True
        # abnormal end
        cur = getattr(self, "current", None)
        try:
            with open(self.err, errors="replace") as fh:
                tail = fh.read()[-3000:]
        except OSError:
            tail = ""
        if cur is None:
            # died outside a case (import error, ...): harness problem
            self.harness_errors.append({"idx": None, "harness_error": "worker exit %s outside a case: %s" % (rc, tail)})
            return True
        self.crashes.append({"idx": cur, "rc": rc, "stderr": tail})
        if cur in self.pending:
            self.pending.remove(cur)
        self.current = None
        if self.pending:
            self.start()
            return False
        return True


def _split(indices, n):
    n = max(1, min(n, len(indices)))
    return [indices[i::n] for i in range(n)]


def run_check(cid, tier="quick", replay=None, only=None):
    t0 = time.time()
    seed = int(os.environ.get("VERIF_SEED", "0") or 0)
    mod = importlib.import_module("wv.checks." + cid.lower())
    known = load_known()
    os.makedirs(os.path.join(build.CACHE, "run"), exist_ok=True)
    scratch = tempfile.mkdtemp(prefix="%s-" % cid, dir=os.path.join(build.CACHE, "run"))
    overlays = {}
    try:
        lanes = mod.lanes(tier)  # list of (lane_name, flavour, ncases)
        if os.environ.get("WV_ONLY_LANES"):  # development aid: run a subset of the lanes (required counters may then be missing)
            lanes = [l for l in lanes if l[0] in os.environ["WV_ONLY_LANES"].split(",")]
        if replay:
            with open(replay) as fh:
                rp = json.load(fh)
            seed = rp["seed"]
            tier = rp.get("tier", tier)
            lanes = [(rp["lane"], rp["flavour"], [rp["idx"]])]
        try:
            for _, flavour, _ in lanes:
                if flavour not in overlays:
                    overlays[flavour] = build.overlay("plain" if flavour == "vg" else flavour, os.path.join(scratch, "ovl-" + flavour))
        except build.BuildError as e:
            print("INCONCLUSIVE property=%s build failed: %s" % (cid, str(e)[-2000:]))
            return 2
        deps = os.path.join(VERIF, ".deps")
        if getattr(mod, "NEEDS_DEPS", False):
            from . import deps as _deps

            if not _deps.ensure():
                print("INCONCLUSIVE property=%s could not install icontract into .deps" % cid)
                return 2
        workers = []
        watchdog = getattr(mod, "WATCHDOG", {"quick": 120, "thorough": 600})[tier]
        total_cases = 0
        for lane, flavour, n in lanes:
            indices = list(n) if not isinstance(n, int) else list(range(n))
            total_cases += len(indices)
            env = dict(os.environ)
            env["PYTHONPATH"] = os.pathsep.join([overlays[flavour], VERIF, deps])
            env["PYTHONHASHSEED"] = "0"
            env["WV_OVERLAY"] = overlays[flavour]
            env["WV_SCRATCH"] = scratch
            env["PYTHONDONTWRITEBYTECODE"] = "1"
            env["OMP_NUM_THREADS"] = "1"
            env["OPENBLAS_NUM_THREADS"] = "1"
            nw = NWORKERS if len(lanes) == 1 else max(2, NWORKERS // len(lanes))
            nw = min(nw, getattr(mod, "MAX_WORKERS", NWORKERS))
            for k, part in enumerate(_split(indices, nw)):
                e = dict(env)
                if flavour == "san":
                    e.update(build.san_env(os.path.join(scratch, "san-%s-%d" % (lane, k))))
                    e["WV_SANLOG"] = os.path.join(scratch, "san-%s-%d" % (lane, k))
                elif flavour == "vg":
                    e["PYTHONMALLOC"] = "malloc"
                    e["WV_SANLOG"] = os.path.join(scratch, "vg-%s-%d" % (lane, k))
                w = Worker(cid, tier, seed, lane, flavour, part, e, scratch, "%s%d" % (lane, k))
                workers.append(w)
        for w in workers:
            w.start()
        alive = list(workers)
        while alive:
            time.sleep(0.1)
            alive = [w for w in alive if not w.poll(watchdog * (10 if w.flavour == "vg" else 1))]
        # aggregate
        results = []
        crashes = []
        timeouts = []
        herrs = []
        for w in workers:
            for r in w.results:
                r["lane"] = w.lane
                r["flavour"] = w.flavour
            results += w.results
            for c in w.crashes:
                c["lane"] = w.lane
                c["flavour"] = w.flavour
            crashes += w.crashes
            timeouts += [(w.lane, w.flavour, t) for t in w.timeouts]
            herrs += w.harness_errors
        return _finish(cid, tier, seed, mod, known, results, crashes, timeouts, herrs, total_cases, t0, replay)
    finally:
        shutil.rmtree(scratch, ignore_errors=True)


def _finish(cid, tier, seed, mod, known, results, crashes, timeouts, herrs, total_cases, t0, replay):
    counters = {}
    keys = set()
    samples = []
    violations = []  # (mech, msg, record)
    for r in results:
        for k, v in (r.get("counters") or {}).items():
            if isinstance(v, (int, float)):
                if k.startswith("max_"):
                    counters[k] = max(counters.get(k, 0), v)
                else:
                    counters[k] = counters.get(k, 0) + v
        if r.get("nontrivial") and r.get("key") is not None:
            ks = r["key"] if isinstance(r["key"], list) else [r["key"]]
            for k in ks:
                keys.add(k)
        if r.get("sample") is not None and len(samples) < 3:
            samples.append(r["sample"])
        for v in r.get("violations") or []:
            violations.append((v.get("mech", "unclassified"), v.get("msg", ""), r, v))
    for c in crashes:
        sig = -c["rc"] if c["rc"] is not None and c["rc"] < 0 else c["rc"]
        v = {
            "mech": "crash",
            "msg": "worker died (rc=%s) while running case %s: %s" % (sig, c["idx"], c["stderr"][-1500:]),
        }
        violations.append(("crash", v["msg"], {"idx": c["idx"], "lane": c["lane"], "flavour": c["flavour"]}, v))
    new_v = []
    known_hits = {}
    for mech, msg, r, v in violations:
        if (cid, mech) in known:
            known_hits.setdefault(mech, []).append((msg, r, v))
        else:
            new_v.append((mech, msg, r, v))
    rep_dir = os.path.join(VERIF, "replays", cid)
    out_lines = []
    replay_paths = []
    if new_v and not replay:
        os.makedirs(rep_dir, exist_ok=True)
    seen_mech = {}
    for mech, msg, r, v in new_v:
        seen_mech[mech] = seen_mech.get(mech, 0) + 1
        if seen_mech[mech] > 3:
            continue
        rp = {
            "property": cid,
            "seed": seed,
            "tier": tier,
            "lane": r.get("lane"),
            "flavour": r.get("flavour"),
            "idx": r.get("idx"),
            "mechanism": mech,
            "message": msg,
            "detail": v.get("data"),
            "case": r.get("case"),
        }
        if replay:
            path = replay
        else:
            h = hashlib.sha1(json.dumps([mech, r.get("lane"), r.get("idx"), seed, tier], sort_keys=True).encode()).hexdigest()[:10]
            path = os.path.join(rep_dir, "%s-%s.json" % (mech.replace("/", "_").replace(":", "_")[:40], h))
            with open(path, "w") as fh:
                json.dump(rp, fh, indent=1, default=str)
        replay_paths.append(path)
        out_lines.append("VIOLATION property=%s replay=%s" % (cid, path))
        out_lines.append("  mechanism=%s %s" % (mech, msg[:600].replace("\n", " | ")))
    for mech, hits in sorted(known_hits.items()):
        out_lines.append(
            "KNOWN-FINDING: property=%s %s (%d occurrences this run; e.g. %s)"
            % (cid, known[(cid, mech)].get("what", mech), len(hits), hits[0][0][:200].replace("\n", " | "))
        )
    evaluations = len(results)
    inconclusive = []
    if herrs:
        inconclusive.append("harness errors: %d (first: %s)" % (len(herrs), str(herrs[0].get("harness_error"))[-1500:]))
    if timeouts and len(timeouts) > max(1, total_cases // 100):
        inconclusive.append("timeouts: %d of %d cases" % (len(timeouts), total_cases))
    need = getattr(mod, "REQUIRED_COUNTERS", [])
    if not replay:
        for k in need:
            if not counters.get(k):
                inconclusive.append("deciding monitor/counter %r never fired" % k)
        if len(keys) < 2:
            inconclusive.append("fewer than 2 distinct non-trivial cases (%d)" % len(keys))
    wall = time.time() - t0
    ev = {
        "property_id": cid,
        "tier": tier,
        "seed": seed,
        "level": getattr(mod, "LEVEL", "exploration"),
        "coverage": {
            "evaluations": evaluations,
            "distinct_nontrivial": len(keys),
            "rule": mod.RULE,
            "samples": samples,
            "exhaustive": bool(getattr(mod, "EXHAUSTIVE", {}).get(tier, False)),
            "monitor_counters": counters,
            "timeouts": len(timeouts),
            "crashes": len(crashes),
            "known_findings_hit": {k: len(v) for k, v in known_hits.items()},
            "new_violation_mechanisms": {m: c for m, c in seen_mech.items()},
            "lanes": [[l, f, (n if isinstance(n, int) else len(n))] for l, f, n in mod.lanes(tier)],
            "native_key": build.native_key(),
            "inconclusive_reasons": inconclusive,
        },
        "assumptions": list(getattr(mod, "ASSUMPTIONS", [])),
        "wall_s": round(wall, 2),
        "violations": len(new_v),
    }
    if not replay:
        os.makedirs(os.path.join(VERIF, "evidence"), exist_ok=True)
        with open(os.path.join(VERIF, "evidence", "%s.json" % cid), "w") as fh:
            json.dump(ev, fh, indent=1, default=str)
    print(
        "%s tier=%s seed=%d: %d cases, %d distinct non-trivial, %d new violations, %d known-finding hits, %d timeouts, %d crashes, %.1fs"
        % (cid, tier, seed, evaluations, len(keys), len(new_v), sum(len(v) for v in known_hits.values()), len(timeouts), len(crashes), wall)
    )
    show = {k: counters[k] for k in sorted(counters)}
    print("  monitors: " + json.dumps(show))
    for l in out_lines:
        print(l)
    for i in inconclusive:
        print("INCONCLUSIVE property=%s %s" % (cid, i))
    if new_v:
        return 1
    if inconclusive:
        return 2
    return 0


def main(argv=None):
    import argparse

    ap = argparse.ArgumentParser()
    ap.add_argument("cid")
    ap.add_argument("--tier", default=os.environ.get("VERIF_TIER", "quick"), choices=["quick", "thorough"])
    ap.add_argument("--replay")
    a = ap.parse_args(argv)
    sys.exit(run_check(a.cid.upper(), a.tier, a.replay))


if __name__ == "__main__":
    main()
