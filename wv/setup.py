"""setup_cmd: offline. Byte-compiles the framework, installs icontract from the local wheelhouse into
.deps, pre-builds both flavours of the extension modules from /repo's working tree (cached by content
hash; checks rebuild on their own when the sources change), and self-tests the reference models."""
import compileall
import os
import sys
import threading
import time

from . import build, deps

VERIF = os.path.dirname(os.path.dirname(os.path.abspath(__file__)))


def main():
    t0 = time.time()
    ok = compileall.compile_dir(os.path.join(VERIF, "wv"), quiet=1)
    print("byte-compile:", "ok" if ok else "FAILED")
    errs = []

    def b(fl):
        try:
            print("build %s: %s" % (fl, build.ensure(fl)))
        except Exception as e:  # noqa
            errs.append("%s: %s" % (fl, e))

    ths = [threading.Thread(target=b, args=(fl,)) for fl in ("plain", "san")]
    for t in ths:
        t.start()
    print("deps:", "ok" if deps.ensure() else "FAILED (icontract-based monitors will be inconclusive)")
    from .oracle import selftest

    n = selftest.run()
    print("oracle self-tests: %d passed" % n)
    for t in ths:
        t.join()
    for e in errs:
        print("BUILD FAILED", e)
    print("setup done in %.1fs" % (time.time() - t0))
    sys.exit(1 if (errs or not ok) else 0)


if __name__ == "__main__":
    main()
