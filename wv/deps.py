"""Install icontract (offline wheelhouse) into git-ignored /verif/.deps on demand."""
import fcntl
import os
import subprocess

from . import build

VERIF = os.path.dirname(os.path.dirname(os.path.abspath(__file__)))
DEPS = os.path.join(VERIF, ".deps")


def ensure():
    if os.path.isdir(os.path.join(DEPS, "icontract")):
        return True
    os.makedirs(DEPS, exist_ok=True)
    with open(os.path.join(DEPS, ".lock"), "w") as lock:
        fcntl.flock(lock, fcntl.LOCK_EX)
        if os.path.isdir(os.path.join(DEPS, "icontract")):
            return True
        p = subprocess.run(
            [build.PY, "-m", "pip", "install", "--no-index", "--find-links", "/opt/veriftools/wheels",
             "--target", DEPS, "--quiet", "icontract"],
            stdout=subprocess.PIPE, stderr=subprocess.STDOUT, text=True,
        )
        if p.returncode != 0:
            print(p.stdout[-2000:])
            return False
    return os.path.isdir(os.path.join(DEPS, "icontract"))
