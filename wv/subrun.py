"""Entry point for C16's real subprocess runs: optionally injects seeded random delays into polyphase block workers
(so that completion orders actually differ), logs the iteration order of a probe set (evidence that hash
randomisation was in effect), then hands over to whatshap's own main()."""
import json
import os
import sys


def main():
    probe = os.environ.get("WV_PROBE")
    if probe:
        names = probe.split(",")
        with open(os.environ["WV_PROBE_OUT"], "a") as fh:
            fh.write(json.dumps({"hashseed": os.environ.get("PYTHONHASHSEED"), "order": list(set(names))}) + "\n")
    delay = os.environ.get("WV_DELAY_SEED")
    if delay is not None:
        import random
        import time

        import whatshap.polyphase.algorithm as alg

        orig = alg.phase_single_block_mt

        import functools

        @functools.wraps(orig)  # keeps module/qualname so that multiprocessing can pickle the reference
        def delayed(*a, **kw):
            # positional layout: (allele_matrix, partial_phasing, block_id, start, end, genotype_slice, param, timers, job_id, num_blocks)
            job_id = a[8] if len(a) > 8 else kw.get("job_id")
            r = random.Random("%s:%s" % (delay, job_id))
            time.sleep(r.random() * 0.05)
            res = orig(*a, **kw)
            with open(os.environ["WV_PROBE_OUT"], "a") as fh:
                fh.write(json.dumps({"block_done": job_id, "pid": os.getpid()}) + "\n")
            return res

        alg.phase_single_block_mt = delayed
    from whatshap.__main__ import main as wmain

    sys.argv = ["whatshap"] + sys.argv[1:]
    if os.environ.get("WV_INPROC_REPEAT"):
        # the same command twice in one interpreter: the second execution starts from a different heap (object addresses,
        # caches, module state left by the first) and overwrites the outputs of the first
        sys.stdout.flush()
        keep = os.dup(1)
        null = os.open(os.devnull, os.O_WRONLY)
        os.dup2(null, 1)  # what the first execution prints (unphase writes its VCF to stdout) is discarded
        try:
            try:
                wmain()
            except SystemExit as e:
                if e.code not in (0, None):
                    raise
        finally:
            sys.stdout.flush()
            os.dup2(keep, 1)
            os.close(keep)
            os.close(null)
        with open(os.environ["WV_PROBE_OUT"], "a") as fh:
            fh.write(json.dumps({"inproc_repeat": True}) + "\n")
    wmain()


if __name__ == "__main__":
    main()
