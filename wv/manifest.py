"""Regenerates /verif/MANIFEST.json from the table below (python3 -m wv.manifest)."""
import json
import os

VERIF = os.path.dirname(os.path.dirname(os.path.abspath(__file__)))

ALL = ["C%02d" % i for i in range(1, 21)]

# id -> (technique, level text, level note, design ref)
CHECKS = {
    "C01": (
        "reference-model monitor: brute-force (Ped)MEC (all 2^R read bipartitions x Viterbi over transmissions) run "
        "next to the real PedigreeDPTable on generated and bounded-exhaustive instances; witness re-costing; tie-contract "
        "check; ASan/UBSan lane; valgrind-memcheck lane (uninitialised values) in the thorough tier",
        "Tens of thousands of generated instances (and every instance of a small bounded domain in the thorough tier) "
        "are solved by the real C++ solver and by an independent enumeration; cost, witness, tie flags and feasibility must "
        "agree. Held on the instances executed.",
        "Trusted: the O-mec model (self-tested against a second, dumber enumeration in setup_cmd); instances limited to "
        "R<=12/16 reads; integer weights far below 2^32.",
        "DESIGN.md §3 C01",
    ),
    "C19": (
        "reference-model monitors (combinatorial number system; Wagner-Fischer) over exhaustively enumerated small "
        "domains and random inputs up to the implementation limits; ASan/UBSan lane; valgrind-memcheck lane (thorough)",
        "All genotypes up to ploidy 6 x 6 alleles and all string pairs over small alphabets up to a bounded length (every "
        "band width) are executed on the real code and compared with the definitions.",
        "Trusted: math.comb based index formula and a textbook Levenshtein DP (self-tested against the recursive definition).",
        "DESIGN.md §3 C19",
    ),
    "C02": (
        "end-to-end runs of `whatshap phase` on simulated genomes with error-free reads under interposed trace monitors; oracle = "
        "generator ground truth vs. own text-level decoders of the PS/HP output (up to one flip per set); ASan/UBSan lane (thorough)",
        "Thousands of simulated data sets (all variant types, clean and free read ends, depths above the cap, several samples, both "
        "tags, with/without reference) are phased by the real pipeline; every output phase set is compared with the truth; the "
        "captured solver instances are re-costed.",
        "Trusted: the simulator (reads are exact haplotype copies with indels at the left-normalised position) and the decoders.",
        "DESIGN.md §3 C02",
    ),
    "C03": (
        "trace monitor: reads handed to the solver (interposed PedigreeDPTable) -> BFS components -> compared with PS/HP of every "
        "phased call in the output; pedigree merge rule from an own parse of the input genotypes; read-list cross check",
        "Thousands of phase runs with interleaved/nested/cut components, pedigrees and both tags; every phased call's set id is "
        "checked against the independently computed component.",
        "Trusted: BFS model; connectivity defined over covered variants.",
        "DESIGN.md §3 C03",
    ),
    "C04": (
        "offline checker over files: htslib record differ between input and output of `whatshap phase` on hostile VCFs, with a GT "
        "policy per target / non-target call and header-definition checks",
        "Thousands of hostile inputs x --sample/--chromosome/tag/only-snvs/distrust/ped selections; every record and call is compared.",
        "Trusted: pysam/htslib parsing (inputs htslib cannot copy are skipped and counted).",
        "DESIGN.md §3 C04",
    ),
    "C05": (
        "offline Mendel/orientation checker on the output VCF + trace monitor on the reported transmission vector "
        "(interposed PedigreeDPTable) incl. soundness and completeness of --recombination-list against it, on simulated "
        "trios/quartets with perturbed genotypes",
        "Thousands of pedigree runs covering consistent, conflicting and missing genotype combinations with none/sparse/deep read "
        "support; membership, exclusion, read-free genetic phasing and transmission-selected haplotype are judged per variant.",
        "Trusted: own VCF parser/decoders; the transmission convention pinned by the repository's own test helper.",
        "DESIGN.md §3 C05",
    ),
    "C09": (
        "metamorphic monitor (PS run vs HP run), round-trip monitor (trace of what the writer was given vs two textual decoders "
        "and whatshap's reader), reproduction monitor for phased-VCF input, staleness monitor over phase/unphase/re-phase histories",
        "Hundreds of cases per run in four strata; each decoded phase statement is matched against what the last run wrote.",
        "Trusted: the two textual decoders (HP entry k names the haplotype of the k-th GT allele).",
        "DESIGN.md §3 C09",
    ),
    "C11": (
        "reference-model monitor: own intersection blocks + definitional error counts (exhaustive permutation DP for ploidy 3-4) "
        "vs. whatshap compare's TSV outputs; identity, metamorphic (haplotype relabelling) and auxiliary-file consistency monitors; "
        "ASan/UBSan lane; valgrind-memcheck lane (thorough)",
        "Thousands of generated pairs/triples of phasings (ploidy 2-4, all block structures, planted switch runs) are compared by "
        "the real command; every pairwise row, the longest-block file, the BED file and the multiway histogram are judged.",
        "Trusted: the definitional oracle; for ploidy > 2 only the minimal joint sum is judged.",
        "DESIGN.md §3 C11",
    ),
    "C20": (
        "conservation monitors over recorded writer events (interposed write_recombination_list / write_changed_genotypes / "
        "ReadList.write and every solver instance) vs. the three report files; soundness checks against trace and output VCF; "
        "recombination lines judged against the solver's transmission vector (per child, incl. sibling families, soundness and completeness)",
        "Hundreds of multi-chromosome x multi-family runs per tier with every subset of the three report options.",
        "Trusted: the interposed wrappers only record arguments/return values and delegate.",
        "DESIGN.md §3 C20",
    ),
    "C06": (
        "by-construction oracle: reads generated as exact haplotype copies with every CIGAR shape are passed through the real "
        "ReadSetReader.read; the allele recorded per (fragment, variant) is compared with the haplotype's allele for fully covered "
        "variants and must be absent for non-overlapping ones; a lane for multi-allelic records (allele index in the record's own ALT "
        "order); ASan/UBSan lane; valgrind-memcheck lane (thorough)",
        "Hundreds of thousands of (read, variant) pairs per run over all variant kinds, clips, =/X, N skips, hidden unrelated "
        "variants, contig ends and mate layouts, with and without reference.",
        "Trusted: the simulator's left-normalisation and shift-range computation; 'fully covered' = footprint + shift range + 1 base each side.",
        "DESIGN.md §3 C06",
    ),
    "C08": (
        "reference-model monitor: plain forward-backward by enumeration of all read-side vectors (float64) next to the real "
        "GenotypeDPTable, and a factorised formulation of the same model for 11-16 active reads; offline GT/GL/GQ consistency checker on `whatshap genotype` output with the core table interposed; "
        "ASan/UBSan lane; valgrind-memcheck lane (thorough)",
        "Thousands of HMM instances (single, trio, quartet; all weight/prior/recombination strata) agree with the model to 1e-9; "
        "every call of hundreds of end-to-end runs obeys the GT/GL/GQ rule and matches what the core returned.",
        "Trusted: the model statement (self-tested against explicit path enumeration); float32 GL storage tolerance 1e-3.",
        "DESIGN.md §3 C08",
    ),
    "C10": (
        "conservation differ over BAM records + decision-rule oracle recomputed from the alleles returned by the interposed "
        "PhasedInputReader.read + haplotype-swap metamorphic rerun + regions metamorphic rerun (with vs. without --regions) + "
        "list-file consistency",
        "Hundreds of haplotag runs per tier on enriched BAMs (secondary/supplementary/duplicate/unmapped, old tags, regions, "
        "read groups); every record and every tagging decision is judged.",
        "Trusted: own VCF decoders; allele detection itself is C06's subject.",
        "DESIGN.md §3 C10",
    ),
    "C15": (
        "offline genotype-conformance checker + htslib passthrough differ + interval/naming monitor using the read-covered "
        "heterozygous variants recorded by the interposed phase_single_individual; ASan/UBSan lane (thorough)",
        "Hundreds of polyploid runs (ploidy 2-6, multi-allelic, collapsed haplotypes, gapped reads, coverage gaps, all -B).",
        "Trusted: own VCF parser; only the PS encoding is used (HP is not defined for ploidy > 2).",
        "DESIGN.md §3 C15",
    ),
    "C16": (
        "differential monitor over real subprocess executions: hash-seed / thread-count / delay / repetition sweeps per "
        "subcommand (also the command executed twice in one interpreter), outputs compared record-wise; for `learn` (and, in the "
        "thorough tier, once per native-heavy subcommand) a run under valgrind memcheck whose repository-frame reports are "
        "violations (result depends on uninitialised memory) and runs with perturbed heap contents; probe-set iteration orders and "
        "block completion orders logged as evidence of reach",
        "Every subcommand with an end-to-end input is executed 8-13 times per input under different hash seeds, schedules and heap states.",
        "Sampled seeds and schedules; polyphasegenetic has no usable end-to-end input in the repository; --algorithm hapchat/heuristic are not driven.",
        "DESIGN.md §3 C16",
    ),
    "C17": (
        "history pipeline monitor: truth VCF -> haplotag -> (partial) unphase -> haplotagphase; own decoders compare exact "
        "haplotype order and phase set with the truth and pre-phased calls with the input",
        "Hundreds of pipelines per tier with reads confined to one phase set, full and partial unphasing.",
        "Trusted: own VCF decoders; the simulator's truth phasing.",
        "DESIGN.md §3 C17",
    ),
    "C07": (
        "post-condition oracle on readselection's result + invariant/temporal/conservation monitors on the interposed "
        "coverage monitor (cap after every insertion, check-before-insert, exactly-once charging) and between selection and "
        "solver (every selected read is handed over) over generated and "
        "bounded-exhaustive read sets; ASan/UBSan lane; valgrind-memcheck lane (thorough)",
        "Thousands of generated read sets and every multiset of <=4 reads over 4 variants are run through the real "
        "selection with the coverage-monitor class replaced by a recording subclass; cap, maximality and the charging "
        "discipline are judged on every execution.",
        "Trusted: span = first..last covered variant as the statement defines it; the recording subclass delegates to the real CovMonitor.",
        "DESIGN.md §3 C07",
    ),
    "C12": (
        "reference-model monitor (own text-level counter) + identity and interval monitors over the report files + icontract "
        "post-condition hooked on PhasingStats.get_nonoverlapping_blocks, on generated hostile VCFs",
        "Thousands of generated VCFs with interleaved/nested phase sets and every genotype shape are run through the real stats "
        "command with all option combinations; every additive column, the block list, the non-overlap of the length pieces and the "
        "ALL row are judged per run.",
        "Trusted: own VCF text parser/decoders; definitions of 'variant' and 'heterozygous' as stated in the check's assumptions.",
        "DESIGN.md §3 C12",
    ),
    "C13": (
        "offline checkers over output files: textual phase scan + htslib record differ + idempotence monitor on "
        "generated hostile VCFs run through the real unphase (in-process and CLI subprocess)",
        "Thousands of generated VCFs covering every genotype shape of the quantifier are unphased by the real code; "
        "success, absence of phase statements, record conservation and idempotence are judged per file.",
        "Trusted: pysam/htslib parsing for the differ (a file htslib itself cannot copy is skipped and counted); own text parser for the scan.",
        "DESIGN.md §3 C13",
    ),
    "C14": (
        "replay-model monitor: the input is replayed in order through a name->haplotype model built by an own list parser; "
        "every output file is compared record by record with the expected sequence; partition and histogram identities",
        "Thousands of generated read files / lists / option combinations are split by the real code; each output's exact record "
        "sequence, the partition property and the histogram are judged per run.",
        "Trusted: the 30-line replay model; pysam for reading BAM outputs; FASTQ compared as (name, comment, sequence, quality).",
        "DESIGN.md §3 C14",
    ),
    "C18": (
        "reference-model monitors (dict heap model, BFS components) + icontract forest invariant over "
        "bounded-exhaustive and random operation histories; ASan/UBSan lane; valgrind-memcheck lane (thorough)",
        "Every history up to a stated depth over a 3-item/3-score domain and thousands of random histories are "
        "executed on the real Cython queue / Python union-find while a model checks every return value; held on "
        "what was executed, nothing more.",
        "Trusted: the 15-line dict/BFS models; API preconditions respected as the caller (readselect) does.",
        "DESIGN.md §3 C18",
    ),
}

PENDING_REASON = "check not built yet in this round (planned in DESIGN.md §3); not claimed until its monitor runs clean on the unchanged tree"


def build():
    checks = []
    for cid in ALL:
        if cid not in CHECKS:
            continue
        tech, text, note, ref = CHECKS[cid]
        checks.append(
            {
                "property_id": cid,
                "quick_cmd": "./check %s --tier quick" % cid,
                "thorough_cmd": "./check %s --tier thorough" % cid,
                "evidence_file": "evidence/%s.json" % cid,
                "replay_cmd_template": "./check %s --replay {path}" % cid,
                "engine": "wv",
                "level_claimed": {"category": "exploration", "text": text, "design_ref": ref},
                "level_note": note,
                "technique": tech,
            }
        )
    m = {
        "version": 1,
        "setup_cmd": "/venv/bin/python -m wv.setup",
        "hooks": {
            "guard": "WHATSHAP_VERIF_TRACE",
            "enable": "no source hooks: monitors are interposed from the harness (wv/launch.py) on an overlay copy of "
            "/repo's working tree whose extensions are rebuilt from source (wv/build.py); the interposition is "
            "active only inside the check workers",
            "baseline_off_cmd": "cd /repo && /venv/bin/python -m pytest -ra -q -p no:cacheprovider --timeout=900 "
            "--continue-on-collection-errors",
            "source_commits": [],
            "add_only": True,
        },
        "engines": [
            {
                "name": "wv",
                "path": "wv/",
                "serves_properties": sorted(CHECKS),
                "kind_free_text": "runtime monitoring: generated workloads executed on the real code (plain and "
                "ASan+UBSan builds of the working tree, valgrind memcheck on the plain build in the thorough tier) under "
                "reference-model, invariant, trace and metamorphic monitors",
            }
        ],
        "checks": checks,
        "notes": "Exit 0 held / only known findings, 1 violation (VIOLATION line), 2 inconclusive. See DESIGN.md section 8 for what "
        "was found and repaired (fix: commits in /repo, known_findings.json 'fixed'), the two recorded findings (C04/C15 INFO END added "
        "by pysam for symbolic ALT; C06 re-alignment window limit next to unrelated indels) and the 239 seeded changes under seeded/ (seeded/RESULTS.tsv: which check catches which).",
        "not_applicable": [{"property_id": c, "reason": PENDING_REASON} for c in ALL if c not in CHECKS],
    }
    return m


if __name__ == "__main__":
    m = build()
    with open(os.path.join(VERIF, "MANIFEST.json"), "w") as fh:
        json.dump(m, fh, indent=1)
        fh.write("\n")
    print("wrote MANIFEST.json with %d checks" % len(m["checks"]))
