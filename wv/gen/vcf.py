"""G-vcf: hostile but well-formed VCF documents (own text writer; nothing from whatshap)."""

BASES = "ACGT"


class Doc:
    def __init__(self):
        self.meta = []  # header lines without trailing newline (## lines)
        self.samples = []
        self.records = []  # dicts: chrom,pos,id,ref,alts,qual,filter,info,fmt,calls
        self.contigs = []

    def header_text(self):
        cols = ["#CHROM", "POS", "ID", "REF", "ALT", "QUAL", "FILTER", "INFO"]
        if self.samples:
            cols += ["FORMAT"] + self.samples
        return "\n".join(self.meta + ["\t".join(cols)]) + "\n"

    @staticmethod
    def record_line(r, with_samples=True):
        f = [
            r["chrom"],
            str(r["pos"]),
            r["id"],
            r["ref"],
            ",".join(r["alts"]) if r["alts"] else ".",
            r["qual"],
            r["filter"],
            r["info"],
        ]
        if with_samples and r["fmt"] is not None:
            f.append(":".join(r["fmt"]) if r["fmt"] else ".")
            for c in r["calls"]:
                f.append(":".join(c[k] for k in r["fmt"]) if r["fmt"] else ".")
        return "\t".join(f)

    def text(self):
        return self.header_text() + "".join(self.record_line(r) + "\n" for r in self.records)

    def write(self, path, compress=False):
        if compress:
            import pysam

            plain = path[:-3] if path.endswith(".gz") else path + ".tmp"
            with open(plain, "w") as fh:
                fh.write(self.text())
            pysam.tabix_compress(plain, path, force=True)
            try:
                pysam.tabix_index(path, preset="vcf", force=True)
            except OSError:
                # documents tabix cannot index (e.g. a contig that reappears after another one) stay unindexed: a consumer
                # that needs the index refuses such a file by itself, one that does not (unphase, stats) must still cope
                self.unindexed = True
            import os

            os.unlink(plain)
        else:
            with open(path, "w") as fh:
                fh.write(self.text())
        return path


INFO_DEFS = [
    ("DP", "1", "Integer"),
    ("AF", "A", "Float"),
    ("DB", "0", "Flag"),
    ("AN", "1", "Integer"),
    ("XS", ".", "String"),
    ("RA", "R", "Integer"),
]
FORMAT_DEFS = [
    ("DP", "1", "Integer"),
    ("GQ", "1", "Integer"),
    ("AD", "R", "Integer"),
    ("FT", "1", "String"),
    ("XV", ".", "Integer"),
    ("XF", "1", "Float"),
]


def _info_value(rng, key, nalt):
    if key == "DP":
        return str(rng.randint(0, 500))
    if key == "AF":
        return ",".join(rng.choice(["0.5", "0.25", "1", "0.001", "1e-05"]) for _ in range(max(1, nalt)))
    if key == "DB":
        return True
    if key == "AN":
        return str(rng.randint(0, 10))
    if key == "XS":
        return rng.choice(["foo", "a,b", "x_y", "z"])
    if key == "RA":
        return ",".join(str(rng.randint(0, 50)) for _ in range(nalt + 1))
    raise KeyError(key)


def _format_value(rng, key, nalt):
    if key == "DP":
        return rng.choice([str(rng.randint(0, 200)), "."])
    if key == "GQ":
        return rng.choice([str(rng.randint(0, 99)), "."])
    if key == "AD":
        return rng.choice([",".join(str(rng.randint(0, 60)) for _ in range(nalt + 1)), "."])
    if key == "FT":
        return rng.choice(["PASS", "lowq", "."])
    if key == "XV":
        return rng.choice(["1", "1,2,3", ".", "7,8"])
    if key == "XF":
        return rng.choice(["0.5", "1.25", ".", "-3"])
    raise KeyError(key)


def random_ref_alt(rng, kind):
    r = rng.choice(BASES)
    if kind == "snv":
        return r, [rng.choice([b for b in BASES if b != r])]
    if kind == "ins":
        return r, [r + "".join(rng.choice(BASES) for _ in range(rng.randint(1, 4)))]
    if kind == "del":
        return r + "".join(rng.choice(BASES) for _ in range(rng.randint(1, 4))), [r]
    if kind == "mnp":
        n = rng.randint(2, 3)
        ref = "".join(rng.choice(BASES) for _ in range(n))
        alt = "".join(rng.choice([b for b in BASES if b != c]) for c in ref)
        return ref, [alt]
    if kind == "multi":
        alts = rng.sample([b for b in BASES if b != r], rng.randint(2, 3))
        if rng.random() < 0.3:
            alts[-1] = r + "T"
        return r, alts
    if kind == "symbolic":
        return r, [rng.choice(["<DEL>", "<INS>", "<DUP>", "*"])]
    if kind == "noalt":
        return r, []
    raise KeyError(kind)


def gen_doc(
    rng,
    n_samples=None,
    n_contigs=None,
    n_records=None,
    ploidy_mode="diploid",  # diploid | mixed | fixed:<n>
    phasing=None,  # None | "PS" | "HP" | "either" (one of them per document)
    hostile=True,
    kinds=None,
    contig_lengths=None,
    allow_missing_gt=True,
    allow_dups=True,
    allow_no_gt_format=True,
    extra_fields=True,
    defined_phase_tags=None,
    with_pq=False,
    mixed_sep=False,
):
    d = Doc()
    n_samples = rng.randint(1, 3) if n_samples is None else n_samples
    n_contigs = rng.randint(1, 3) if n_contigs is None else n_contigs
    n_records = rng.randint(1, 40) if n_records is None else n_records
    d.samples = ["sample%d" % i for i in range(n_samples)]
    rng.shuffle(d.samples)
    d.contigs = ["chr%s" % c for c in rng.sample(["1", "2", "X", "7", "Un_1"], n_contigs)]
    if contig_lengths is None:
        contig_lengths = rng.random() < 0.7
    d.meta.append("##fileformat=VCFv4.2")
    if hostile and rng.random() < 0.3:
        d.meta.append("##phasing=none")
    if hostile and rng.random() < 0.3:
        d.meta.append('##source="wv generator, a=b"')
    for c in d.contigs:
        d.meta.append("##contig=<ID=%s%s>" % (c, ",length=%d" % 1000000 if contig_lengths else ""))
    if hostile:
        for a in ("DEL", "INS", "DUP"):
            d.meta.append('##ALT=<ID=%s,Description="symbolic %s">' % (a, a))
        # htslib >= 1.18 cannot copy records with symbolic ALT alleles unless INFO/END is defined
        d.meta.append('##INFO=<ID=END,Number=1,Type=Integer,Description="End position">')
        d.meta.append('##FILTER=<ID=lowq,Description="low quality">')
        d.meta.append('##FILTER=<ID=q10,Description="q10">')
    infos = [x for x in INFO_DEFS if extra_fields and rng.random() < 0.6]
    fmts = [x for x in FORMAT_DEFS if extra_fields and rng.random() < 0.6]
    for k, n, t in infos:
        d.meta.append('##INFO=<ID=%s,Number=%s,Type=%s,Description="info %s">' % (k, n, t, k))
    d.meta.append('##FORMAT=<ID=GT,Number=1,Type=String,Description="Genotype">')
    for k, n, t in fmts:
        d.meta.append('##FORMAT=<ID=%s,Number=%s,Type=%s,Description="format %s">' % (k, n, t, k))
    if phasing == "either":
        phasing = rng.choice(["PS", "HP"])
    tags = set(defined_phase_tags or [])
    if phasing:
        tags.add(phasing)
    if "PS" in tags:
        d.meta.append('##FORMAT=<ID=PS,Number=1,Type=Integer,Description="Phase set identifier">')
    if "HP" in tags:
        d.meta.append('##FORMAT=<ID=HP,Number=.,Type=String,Description="Phasing haplotype identifier">')
    if with_pq or "PQ" in tags:
        # PQ is declared Float by WhatsHap and Integer by the VCF 4.1/4.2 specification: both occur in real files
        d.pq_type = rng.choice(["Float", "Float", "Integer"])
        d.meta.append('##FORMAT=<ID=PQ,Number=1,Type=%s,Description="Phasing quality">' % d.pq_type)
        with_pq = True
    if rng.random() < 0.1:
        # another tool's definition of an ID that WhatsHap also knows (declared, not used in any record)
        d.meta.append('##FORMAT=<ID=HS,Number=1,Type=String,Description="Haplotype score class of some caller">')
    d.phasing = phasing
    if kinds is None:
        kinds = ["snv"] * 6 + ["ins", "del", "mnp"] + (["multi", "symbolic", "noalt"] if hostile else [])
    fixed_ploidy = None
    if ploidy_mode.startswith("fixed:"):
        fixed_ploidy = int(ploidy_mode.split(":")[1])
    elif ploidy_mode == "diploid":
        fixed_ploidy = 2
    per_contig = [0] * n_contigs
    for _ in range(n_records):
        per_contig[rng.randrange(n_contigs)] += 1
    # phase block state per (contig, sample): list of open block ids
    for ci, chrom in enumerate(d.contigs):
        pos = rng.randint(1, 500)
        open_blocks = {s: [] for s in d.samples}
        for k in range(per_contig[ci]):
            dup = allow_dups and hostile and k > 0 and rng.random() < 0.06
            if not dup:
                pos += rng.choice([1, 2, 5, 30, 200, 1000])
            kind = rng.choice(kinds)
            ref, alts = random_ref_alt(rng, kind)
            nalt = len(alts)
            info = {}
            for key, n, t in infos:
                if rng.random() < 0.6:
                    info[key] = _info_value(rng, key, nalt)
            info_s = ";".join(k2 if v is True else "%s=%s" % (k2, v) for k2, v in info.items()) or "."
            rec_fmts = [x[0] for x in fmts if rng.random() < 0.7]
            has_gt = not (hostile and allow_no_gt_format and rng.random() < 0.05 and rec_fmts)
            fmt = (["GT"] if has_gt else []) + rec_fmts
            calls = []
            use_ps = use_hp = use_pq = False
            rec_calls_meta = []
            for s in d.samples:
                call = {}
                for key in rec_fmts:
                    call[key] = _format_value(rng, key, nalt)
                p = fixed_ploidy or rng.choice([1, 2, 2, 2, 3, 4])
                if has_gt:
                    mode = rng.random()
                    if allow_missing_gt and hostile and mode < 0.06:
                        gt_alleles = ["."] * p
                        if rng.random() < 0.5:
                            gt_alleles = ["."]
                    elif allow_missing_gt and hostile and mode < 0.12 and p >= 2:
                        gt_alleles = [str(rng.randint(0, nalt)) for _ in range(p)]
                        gt_alleles[rng.randrange(p)] = "."
                    else:
                        gt_alleles = [str(rng.randint(0, nalt)) for _ in range(p)]
                        if rng.random() < 0.5 and nalt >= 1 and p >= 2:
                            gt_alleles = ["0"] * p
                            for j in rng.sample(range(p), rng.randint(1, p - 1)):
                                gt_alleles[j] = str(rng.randint(1, nalt))
                    numeric = [a for a in gt_alleles if a != "."]
                    is_het = len(numeric) == len(gt_alleles) and len(set(numeric)) > 1
                    sep = "/"
                    ps = hp = pq = None
                    if phasing and is_het and rng.random() < 0.7 and kind not in ("noalt",):
                        # choose / open a block
                        ob = open_blocks[s]
                        if not ob or rng.random() < 0.25:
                            if len(ob) >= 3:
                                ob.pop(rng.randrange(len(ob)))
                            ob.append(pos)
                        elif rng.random() < 0.1 and len(ob) > 1:
                            ob.pop(rng.randrange(len(ob)))
                        block = rng.choice(ob)
                        if phasing == "PS":
                            sep = "|"
                            ps = str(block)
                        else:
                            order = list(range(1, p + 1))
                            rng.shuffle(order)
                            hp = ",".join("%d-%d" % (block, o) for o in order)
                        if with_pq and rng.random() < 0.5:
                            pq = rng.choice(["10", "23.5", "99"] if getattr(d, "pq_type", "Float") == "Float" else ["10", "23", "99"])
                    elif hostile and rng.random() < 0.1 and p >= 2 and phasing != "HP":
                        # phased genotype without PS (e.g. homozygous 1|1 or stray het 0|1)
                        if not is_het or phasing is None or phasing == "PS":
                            sep = "|"
                    elif hostile and is_het and rng.random() < 0.15:
                        gt_alleles = list(reversed(gt_alleles))  # unsorted unphased GT like 1/0
                    call["GT"] = sep.join(gt_alleles)
                    if mixed_sep and hostile and len(gt_alleles) >= 3 and ps is None and hp is None and rng.random() < 0.25:
                        # VCF >= 4.3 allows '/' and '|' to be mixed inside one polyploid genotype (0/1|2): phased as soon as one '|' is present
                        seps = [rng.choice("/|") for _ in range(len(gt_alleles) - 1)]
                        seps[rng.randrange(len(seps))] = "|"
                        if all(x == "|" for x in seps):
                            seps[rng.randrange(len(seps))] = "/"
                        if rng.random() < 0.5:
                            gt_alleles = sorted(gt_alleles, key=lambda a: (a == ".", a))
                        call["GT"] = gt_alleles[0] + "".join(x + a for x, a in zip(seps, gt_alleles[1:]))
                    rec_calls_meta.append((ps, hp, pq))
                    use_ps |= ps is not None
                    use_hp |= hp is not None
                    use_pq |= pq is not None
                else:
                    rec_calls_meta.append((None, None, None))
                calls.append(call)
            if not has_gt and phasing and rng.random() < 0.5:
                # a record without GT that still carries phase tags (e.g. GT stripped from a phased file)
                if phasing == "PS":
                    use_ps = True
                    rec_calls_meta = [(str(pos), None, None) for _ in calls]
                else:
                    use_hp = True
                    rec_calls_meta = [(None, "%d-1,%d-2" % (pos, pos), None) for _ in calls]
            if use_ps:
                fmt.append("PS")
            if use_hp:
                fmt.append("HP")
            if use_pq:
                fmt.append("PQ")
            for call, (ps, hp, pq) in zip(calls, rec_calls_meta):
                if use_ps:
                    call["PS"] = ps or "."
                if use_hp:
                    call["HP"] = hp or "."
                if use_pq:
                    call["PQ"] = pq or "."
            filt = rng.choice(["PASS", ".", "lowq", "lowq;q10"]) if hostile else "PASS"
            d.records.append(
                {
                    "chrom": chrom,
                    "pos": pos,
                    "id": rng.choice([".", "rs%d" % rng.randint(1, 9999)]),
                    "ref": ref,
                    "alts": alts,
                    "qual": rng.choice([".", "30", "12.5", "1000"]),
                    "filter": filt,
                    "info": info_s,
                    "fmt": fmt,
                    "calls": calls,
                    "kind": kind,
                }
            )
    return d


def hostilize(rng, doc, prephase=None, allow_missing=True):
    """Make a simulated (clean) Doc hostile in place: extra header definitions and INFO/FORMAT values, extra records
    (multi-ALT, symbolic, no-ALT, duplicate positions), missing / partial genotypes, pre-existing phasing with the
    given tag ('PS' | 'HP' | None), unsorted unphased genotypes, FILTER/QUAL/ID variety."""
    infos = [x for x in INFO_DEFS if x[0] != "DP" and rng.random() < 0.6]
    fmts = [x for x in FORMAT_DEFS if x[0] not in ("GQ",) and rng.random() < 0.6]
    extra = []
    for a in ("DEL", "INS", "DUP"):
        extra.append('##ALT=<ID=%s,Description="symbolic %s">' % (a, a))
    extra.append('##INFO=<ID=END,Number=1,Type=Integer,Description="End position">')
    extra.append('##FILTER=<ID=lowq,Description="low quality">')
    extra.append('##FILTER=<ID=q10,Description="q10">')
    if rng.random() < 0.3:
        extra.append("##phasing=none")
    for k, n, t in infos:
        extra.append('##INFO=<ID=%s,Number=%s,Type=%s,Description="info %s">' % (k, n, t, k))
    for k, n, t in fmts:
        extra.append('##FORMAT=<ID=%s,Number=%s,Type=%s,Description="format %s">' % (k, n, t, k))
    if prephase == "PS":
        extra.append('##FORMAT=<ID=PS,Number=1,Type=Integer,Description="Phase set identifier">')
    if prephase == "HP":
        extra.append('##FORMAT=<ID=HP,Number=.,Type=String,Description="Phasing haplotype identifier">')
    pq_type = rng.choice(["Float", "Float", "Integer"])
    if rng.random() < 0.3:
        extra.append('##FORMAT=<ID=PQ,Number=1,Type=%s,Description="Phasing quality">' % pq_type)
        with_pq = True
    else:
        with_pq = False
    if rng.random() < 0.1:
        extra.append('##FORMAT=<ID=HS,Number=1,Type=String,Description="Haplotype score class of some caller">')
    doc.meta = doc.meta[:1] + extra + doc.meta[1:]
    new = []
    block = {}
    for r in doc.records:
        # extra record before this one?
        if rng.random() < 0.25:
            kind = rng.choice(["multi", "symbolic", "noalt", "dup", "dup", "multidup", "indeldup"])
            if kind == "dup":
                ref, alts = r["ref"][0], [rng.choice([b for b in BASES if b != r["ref"][0]])]
                pos = r["pos"]
            elif kind == "indeldup":
                # a deletion or insertion record at the very position of a simulated variant (an SNV and an indel at one base, as after
                # splitting a multi-allelic site), before or after it
                if rng.random() < 0.5:
                    ref, alts = r["ref"][0] + "".join(rng.choice(BASES) for _ in range(rng.randint(1, 3))), [r["ref"][0]]
                else:
                    ref, alts = r["ref"][0], [r["ref"][0] + "".join(rng.choice(BASES) for _ in range(rng.randint(1, 3)))]
                pos = r["pos"]
            elif kind == "multidup":
                # a multi-ALT record at the very position of a simulated variant (before or after it)
                others = [b for b in BASES if b != r["ref"][0]]
                rng.shuffle(others)
                ref, alts = r["ref"][0], others[: rng.choice([2, 2, 3])]
                pos = r["pos"]
            else:
                ref, alts = random_ref_alt(rng, kind)
                pos = max(1, r["pos"] - rng.randint(1, 20))
                if new and new[-1]["chrom"] == r["chrom"] and pos < new[-1]["pos"]:
                    pos = new[-1]["pos"]
            calls = []
            for _ in doc.samples:
                na = len(alts)
                g = [str(rng.randint(0, na)) for _ in range(2)]
                calls.append({"GT": rng.choice(["/", "/", "|"]).join(g), "GQ": "30"})
            x = {"chrom": r["chrom"], "pos": pos, "id": ".", "ref": ref, "alts": alts, "qual": ".", "filter": ".", "info": ".",
                 "fmt": ["GT", "GQ"], "calls": calls, "kind": kind}
            if kind in ("dup", "multidup", "indeldup") and rng.random() < 0.5:
                new.append(r)
                r = x  # duplicate goes after
            else:
                new.append(x)
        new.append(r)
    doc.records = new
    for r in doc.records:
        nalt = len(r["alts"])
        info = {} if r["info"] == "." else dict(kv.split("=") if "=" in kv else (kv, True) for kv in r["info"].split(";"))
        for key, n, t in infos:
            if rng.random() < 0.5:
                info[key] = _info_value(rng, key, nalt)
        r["info"] = ";".join(k if v is True else "%s=%s" % (k, v) for k, v in info.items()) or "."
        r["id"] = rng.choice([".", "rs%d" % rng.randint(1, 9999)])
        r["qual"] = rng.choice([".", "30", "12.5", "1000"])
        r["filter"] = rng.choice(["PASS", ".", "lowq", "lowq;q10"])
        rec_fmts = [x[0] for x in fmts if rng.random() < 0.7 and x[0] not in r["fmt"]]
        r["fmt"] = r["fmt"] + rec_fmts
        use_ps = use_hp = use_pq = False
        for si, call in enumerate(r["calls"]):
            for key in rec_fmts:
                call[key] = _format_value(rng, key, nalt)
            gt = call["GT"]
            al = gt.replace("|", "/").split("/")
            if allow_missing and rng.random() < 0.04:
                call["GT"] = rng.choice(["./.", ".", "0/.", "./1"])
                continue
            het = len(set(al)) > 1 and "." not in al
            if het and prephase and rng.random() < 0.6 and nalt >= 1:
                key = (r["chrom"], si)
                if key not in block or rng.random() < 0.2:
                    block[key] = r["pos"]
                if rng.random() < 0.5:
                    al = list(reversed(al))
                if prephase == "PS":
                    call["GT"] = "|".join(al)
                    call["PS"] = str(block[key])
                    use_ps = True
                else:
                    order = [1, 2]
                    rng.shuffle(order)
                    call["GT"] = "/".join(al)
                    call["HP"] = ",".join("%d-%d" % (block[key], o) for o in order)
                    use_hp = True
                if with_pq and rng.random() < 0.5:
                    call["PQ"] = "23.5" if pq_type == "Float" else "23"
                    use_pq = True
            elif het and rng.random() < 0.15:
                call["GT"] = "/".join(reversed(al))
            elif not het and "." not in al and rng.random() < 0.05 and prephase != "HP":
                call["GT"] = "|".join(al)
        for key, flag in (("PS", use_ps), ("HP", use_hp), ("PQ", use_pq)):
            if flag:
                r["fmt"].append(key)
                for call in r["calls"]:
                    call.setdefault(key, ".")
    return doc
