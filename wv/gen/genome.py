"""G-genome: simulated references, variants, true haplotypes, pedigrees and reads that are exact haplotype copies.
Writes FASTA, VCF (own writer) and coordinate-sorted indexed BAM (pysam). Nothing from whatshap is used."""
import os

BASES = "ACGT"


def random_reference(rng, length):
    seq = []
    while len(seq) < length:
        r = rng.random()
        if r < 0.03:
            seq += [rng.choice(BASES)] * rng.randint(4, 12)  # homopolymer
        elif r < 0.06:
            unit = [rng.choice(BASES) for _ in range(rng.randint(2, 4))]
            seq += unit * rng.randint(3, 8)  # tandem repeat
        elif r < 0.08:
            two = rng.sample(BASES, 2)
            seq += [rng.choice(two) for _ in range(rng.randint(8, 20))]  # low complexity
        else:
            seq += [rng.choice(BASES) for _ in range(rng.randint(5, 40))]
    return "".join(seq[:length])


def left_normalize(refseq, pos, ref, alt):
    """Standard left-alignment + parsimony of an indel against the reference. pos is 0-based."""
    changed = True
    while changed:
        changed = False
        if ref and alt and ref[-1] == alt[-1] and (len(ref) > 1 or len(alt) > 1):
            ref, alt = ref[:-1], alt[:-1]
            changed = True
        if not ref or not alt:
            if pos == 0:
                break
            pos -= 1
            b = refseq[pos]
            ref, alt = b + ref, b + alt
            changed = True
    while len(ref) > 1 and len(alt) > 1 and ref[0] == alt[0]:
        ref, alt = ref[1:], alt[1:]
        pos += 1
    return pos, ref, alt


def shift_range(refseq, pos, ref, alt):
    """How many positions the (left-normalised) indel can be shifted to the right and stay equivalent."""
    if len(ref) == len(alt):
        return 0
    if len(ref) > len(alt):  # deletion of ref[1:]
        unit = ref[1:]
        start = pos + 1
    else:
        unit = alt[1:]
        start = pos + 1
    # rotate: the indel can shift right while the next reference base equals the first base of the unit
    k = 0
    u = list(unit)
    p = start if len(ref) < len(alt) else start + len(unit)
    # insertion: compare with ref base at `start + k`; deletion: ref base after the deleted block
    while p < len(refseq) and refseq[p] == u[k % len(u)]:
        k += 1
        p += 1
        if k > 200:
            break
    return k


class Variant:
    __slots__ = ("pos", "ref", "alt", "kind", "shift", "hid")

    def __init__(self, pos, ref, alt, kind, shift=0):
        self.pos, self.ref, self.alt, self.kind, self.shift = pos, ref, alt, kind, shift
        self.hid = False  # True: an unrelated variant that is never written to the VCF

    @property
    def end(self):  # end of the VCF footprint (exclusive)
        return self.pos + len(self.ref)

    def as_list(self):
        return [self.pos, self.ref, self.alt, self.kind, self.shift]


def random_variants(rng, refseq, n, kinds, min_gap=30, margin=40, allow_shiftable=True, windows=None):
    """Well separated variants (>= min_gap between extended footprints), left-normalised. windows: optional list of
    (lo, hi) intervals the variants are confined to (islands)."""
    out = []
    L = len(refseq)
    tries = 0
    taken = []  # (lo, hi) extended footprints
    while len(out) < n and tries < n * 30:
        tries += 1
        kind = rng.choice(kinds)
        if windows:
            wlo, whi = rng.choice(windows)
            pos = rng.randrange(wlo + margin, whi - margin)
        else:
            pos = rng.randrange(margin, L - margin)
        if kind == "snv":
            ref = refseq[pos]
            alt = rng.choice([b for b in BASES if b != ref])
        elif kind == "mnp":
            k = rng.randint(2, 4)
            ref = refseq[pos : pos + k]
            alt = "".join(rng.choice([b for b in BASES if b != c]) for c in ref)
        elif kind == "ins":
            ref = refseq[pos]
            alt = ref + "".join(rng.choice(BASES) for _ in range(rng.randint(1, 6)))
        else:
            k = rng.randint(1, 6)
            ref = refseq[pos : pos + k + 1]
            alt = ref[0]
        shift = 0
        if kind in ("ins", "del"):
            pos, ref, alt = left_normalize(refseq, pos, ref, alt)
            if len(ref) == len(alt) or pos < margin:
                continue
            shift = shift_range(refseq, pos, ref, alt)
            if shift and not allow_shiftable:
                continue
        lo, hi = pos, pos + len(ref) + shift + (len(alt) if kind == "ins" else 0)
        if any(not (hi + min_gap <= a or b + min_gap <= lo) for a, b in taken):
            continue
        if hi >= L - margin:
            continue
        taken.append((lo, hi))
        out.append(Variant(pos, ref, alt, kind, shift))
    out.sort(key=lambda v: v.pos)
    return out


def transmit(rng, parent_haps, nvar, recomb_prob):
    """One gamete from a parent: list of alleles and the list of source haplotype per variant."""
    src = rng.randint(0, 1)
    alleles, srcs = [], []
    for i in range(nvar):
        if i > 0 and rng.random() < recomb_prob:
            src = 1 - src
        alleles.append(parent_haps[src][i])
        srcs.append(src)
    return alleles, srcs


def read_from_haplotype(refseq, variants, hap_alleles, a, b, edge_ins=False, ins_end=None):
    """Exact copy of the haplotype over reference interval [a,b): returns (sequence, cigartuples) or None when an
    end falls where a valid CIGAR cannot start/end (inside or adjacent to an indel carried by the haplotype)."""
    seq = []
    cig = []  # (op, len) with op 0=M 1=I 2=D

    def add(op, n):
        if n <= 0:
            return
        if cig and cig[-1][0] == op:
            cig[-1] = (op, cig[-1][1] + n)
        else:
            cig.append((op, n))

    pos = a
    del_end = -1  # end of the last deletion applied to this read
    for v, al in zip(variants, hap_alleles):
        if v.end <= a and not (v.kind == "ins" and v.pos == a - 1):
            continue
        if v.pos >= b:
            break
        if al == 0:
            continue
        if v.pos < del_end:
            continue  # the site lies inside a deletion this haplotype carries: nothing of this variant is left
        if v.kind in ("snv", "mnp"):
            s, e = max(v.pos, a), min(v.end, b)
            if s >= e:
                continue
            seq.append(refseq[pos:s])
            add(0, s - pos)
            seq.append(v.alt[s - v.pos : e - v.pos])
            add(0, e - s)
            pos = e
        elif v.kind == "ins":
            # inserted bases sit between anchor (v.pos) and v.pos+1
            if v.pos < a:  # read starts right after the anchor
                if edge_ins and v.pos == a - 1 and not seq:
                    seq.append(v.alt[1:])  # the alignment begins with the inserted bases (leading I)
                    add(1, len(v.alt) - 1)
                continue
            if v.pos >= b - 1:
                if edge_ins and v.pos == b - 1:
                    seq.append(refseq[pos : v.pos + 1])
                    add(0, v.pos + 1 - pos)
                    seq.append(v.alt[1:])  # the alignment ends right behind the inserted bases (trailing I)
                    add(1, len(v.alt) - 1)
                    pos = b
                    continue
                if ins_end == "anchor" and v.pos == b - 1:
                    break  # the read ends with the anchor base; the inserted bases lie behind its end
                if ins_end is not None and ins_end.startswith("partial") and v.pos == b - 1 and len(v.alt) >= 3:
                    k_ = int(ins_end.split(":")[1]) % (len(v.alt) - 2) + 1  # the read ends inside the inserted bases
                    seq.append(refseq[pos : v.pos + 1])
                    add(0, v.pos + 1 - pos)
                    seq.append(v.alt[1 : 1 + k_])
                    add(1, k_)
                    pos = b
                    continue
                return None  # read would end with the anchor; ambiguous whether the insertion follows
            seq.append(refseq[pos : v.pos + 1])
            add(0, v.pos + 1 - pos)
            seq.append(v.alt[1:])
            add(1, len(v.alt) - 1)
            pos = v.pos + 1
        else:  # deletion of [v.pos+1, v.end)
            if v.pos >= a and v.pos == b - 1:
                break  # the read ends with the anchor base: the deleted stretch lies behind its end
            if v.pos < a or v.end >= b:
                return None
            seq.append(refseq[pos : v.pos + 1])
            add(0, v.pos + 1 - pos)
            add(2, v.end - v.pos - 1)
            pos = v.end
            del_end = v.end
    if pos < b:
        seq.append(refseq[pos:b])
        add(0, b - pos)
    if not cig or (cig[0][0] != 0 and not edge_ins) or (cig[-1][0] != 0 and not (edge_ins or ins_end)) or cig[0][0] == 2 or cig[-1][0] == 2:
        return None
    return "".join(seq), cig


def aligner_like_end(refseq, start, seq, cig):
    """What a read mapper reports for a read that ends inside the repeat behind an indel: when the bases from the last gap
    (I or D) to the end of the read are identical to the reference if laid down without that gap, the gap-free (mismatch-free)
    alignment is the optimal one and the gap disappears from the CIGAR. Returns the possibly rewritten cigar."""
    if len(cig) < 3 or cig[-1][0] != 0 or cig[-2][0] not in (1, 2) or cig[-3][0] != 0:
        return cig
    y = cig[-1][1]
    op, L = cig[-2]
    gap_ref = start + sum(l for o, l in cig[:-2] if o in (0, 2, 3, 7, 8))  # reference position behind the last base before the gap
    tail = seq[len(seq) - y - (L if op == 1 else 0):]
    if gap_ref + len(tail) > len(refseq) or refseq[gap_ref : gap_ref + len(tail)] != tail:
        return cig
    head = list(cig[:-3])
    return head + [(0, cig[-3][1] + len(tail))]


def _reflen(cig):
    return sum(l for op, l in cig if op in (0, 2, 3, 7, 8))


def decorate(rng, refseq, start, seq, cig, p):
    """G-cigar: soft/hard clips, =/X instead of M. The aligned part is unchanged."""
    cig = list(cig)
    if rng.random() < 0.5:
        # =/X instead of M
        out = []
        rp, qp = start, 0
        for op, l in cig:
            if op == 0:
                run_op, run = None, 0
                for k in range(l):
                    o = 7 if seq[qp + k] == refseq[rp + k] else 8
                    if o == run_op:
                        run += 1
                    else:
                        if run:
                            out.append((run_op, run))
                        run_op, run = o, 1
                if run:
                    out.append((run_op, run))
                rp += l
                qp += l
            else:
                out.append((op, l))
                if op == 1:
                    qp += l
                elif op in (2, 3):
                    rp += l
        cig = out
    if rng.random() < 0.5:
        n = rng.randint(1, 12)
        seq = "".join(rng.choice(BASES) for _ in range(n)) + seq
        cig = [(4, n)] + cig
    if rng.random() < 0.5:
        n = rng.randint(1, 12)
        seq = seq + "".join(rng.choice(BASES) for _ in range(n))
        cig = cig + [(4, n)]
    if rng.random() < 0.2:
        cig = [(5, rng.randint(1, 30))] + cig
    if rng.random() < 0.2:
        cig = cig + [(5, rng.randint(1, 30))]
    return start, seq, cig


class Sim:
    """A simulated data set on disk plus its ground truth."""


def simulate(rng, tmp, p):
    """p: dict of parameters (all optional):
    n_chrom, chrom_len, n_var, kinds, samples (list of names), pedigree ([(father, mother, child)]), recomb_prob,
    depth, read_len (min,max), paired (prob), end_policy ('clean'|'free'), error_rate, het_prob, min_gap,
    allow_shiftable, qual_mode, per_sample_bam (bool), vcf_compress (bool), extra_vcf (callable hook) ..."""
    import pysam

    sim = Sim()
    n_chrom = p.get("n_chrom", 1)
    samples = list(p.get("samples", ["sampleA"]))
    ped = list(p.get("pedigree", []))
    sim.samples, sim.pedigree = samples, ped
    sim.chroms = list(p["chrom_names"])[:n_chrom] if p.get("chrom_names") else ["chr%d" % (i + 1) for i in range(n_chrom)]
    sim.ref, sim.variants, sim.haps, sim.tx = {}, {}, {}, {}
    kinds = p.get("kinds", ["snv"])
    het_prob = p.get("het_prob", 0.7)
    for c in sim.chroms:
        L = p.get("chrom_len", 3000)
        windows = None
        if p.get("islands"):
            # (k, island_len, gap): variants and reads live in k islands separated by read-free stretches of `gap` bases
            k, ilen, gap = p["islands"]
            L = k * ilen + (k - 1) * gap
            windows = [(i * (ilen + gap), i * (ilen + gap) + ilen) for i in range(k)]
        sim.windows = getattr(sim, "windows", {})
        sim.windows[c] = windows
        refseq = random_reference(rng, L)
        vs = random_variants(rng, refseq, p.get("n_var", 12), kinds, p.get("min_gap", 30), p.get("margin", 40), p.get("allow_shiftable", True), windows=windows)
        if p.get("pos1_prob") and "snv" in kinds and not windows and rng.random() < p["pos1_prob"]:
            # an SNV at the very first base of the contig (VCF POS 1, 0-based position 0: phase-set / component id 0)
            vs.insert(0, Variant(0, refseq[0], rng.choice([b for b in BASES if b != refseq[0]]), "snv", 0))
        if p.get("shared_positions") and c != sim.chroms[0] and not p.get("companions") and not p.get("covering_deletions"):
            # the same sequence and the same variant records on every contig (coordinates recur across contigs); haplotypes differ
            import copy as _copy

            refseq = sim.ref[sim.chroms[0]]
            vs = [_copy.copy(v) for v in sim.variants[sim.chroms[0]]]
        if p.get("companions"):
            # unrelated (never in the VCF) indels 1-7 reference bases next to an SNV, on either side
            extra = []
            for v in vs:
                if v.kind not in p.get("companion_kinds", ("snv",)) or rng.random() >= p["companions"]:
                    continue
                ck, k, side, dd = rng.choice(["ins", "del"]), rng.randint(1, p.get("companion_max_len", 6)), rng.choice([-1, 1]), rng.randint(1, 7)
                if ck == "ins":
                    q = v.pos - dd if side < 0 else v.end - 1 + dd
                    if not (5 <= q < L - 5):
                        continue
                    w = Variant(q, refseq[q], refseq[q] + "".join(rng.choice(BASES) for _ in range(k)), "ins")
                else:
                    q = v.pos - dd - k if side < 0 else v.end - 1 + dd
                    if not (5 <= q and q + k + 1 < L - 5):
                        continue
                    w = Variant(q, refseq[q : q + k + 1], refseq[q], "del")
                w.shift = shift_range(refseq, w.pos, w.ref, w.alt)
                w.hid = True
                extra.append(w)
            for v in vs:
                # an unrelated deletion that removes the site of an SNV: haplotypes carrying it have no base there
                if v.kind == "snv" and p.get("covering_deletions") and rng.random() < p["covering_deletions"]:
                    dd = rng.randint(1, 3)
                    k = dd + rng.randint(0, 4)
                    q = v.pos - dd
                    if q >= 5 and q + k + 1 < L - 5 and not any(abs(w.pos - v.pos) < 20 for w in extra):
                        w = Variant(q, refseq[q : q + k + 1], refseq[q], "del")
                        w.shift = 0
                        w.hid = True
                        extra.append(w)
            vs = sorted(vs + extra, key=lambda v: v.pos)
        sim.ref[c] = refseq
        sim.variants[c] = vs
        nv = len(vs)
        haps = {}
        tx = {}
        children = {ch: (f, m) for f, m, ch in ped}

        def make(s):
            if s in haps:
                return
            if s in children:
                f, m = children[s]
                make(f)
                make(m)
                pa, ps = transmit(rng, haps[f], nv, p.get("recomb_prob", 0.0))
                ma, ms = transmit(rng, haps[m], nv, p.get("recomb_prob", 0.0))
                haps[s] = [pa, ma]
                tx[s] = (ps, ms)
            else:
                h0, h1 = [], []
                for _ in range(nv):
                    r = rng.random()
                    if r < het_prob:
                        x = rng.randint(0, 1)
                        h0.append(x)
                        h1.append(1 - x)
                    elif r < het_prob + (1 - het_prob) / 2:
                        h0.append(1)
                        h1.append(1)
                    else:
                        h0.append(0)
                        h1.append(0)
                haps[s] = [h0, h1]

        for s in samples:
            make(s)
        sim.haps[c] = haps
        sim.tx[c] = tx
    # ---------- FASTA
    sim.fasta = os.path.join(tmp, "ref.fa")
    with open(sim.fasta, "w") as fh:
        for c in sim.chroms:
            fh.write(">%s\n" % c)
            s = sim.ref[c]
            for i in range(0, len(s), 60):
                fh.write(s[i : i + 60] + "\n")
    pysam.faidx(sim.fasta)
    # ---------- reads
    depth = p.get("depth", 10)
    rl_min, rl_max = p.get("read_len", (150, 600))
    err = p.get("error_rate", 0.0)
    end_policy = p.get("end_policy", "clean")
    sim.reads = []  # dicts: name, chrom, sample, hap, start, cigar, seq, qual, flag, mate
    rid = 0
    for c in sim.chroms:
        refseq = sim.ref[c]
        L = len(refseq)
        vs = sim.variants[c]
        # forbidden end zones
        multi = [(v.pos - 25, v.end + v.shift + 25 + (len(v.alt) if v.kind == "ins" else 0)) for v in vs if v.kind != "snv"]
        windows = sim.windows.get(c)
        for s in p.get("read_samples", samples):
            covered = L if not windows else sum(hi - lo for lo, hi in windows)
            nfrag = max(1, int(depth * covered / ((rl_min + rl_max) / 2)))
            molecules = None
            if p.get("barcodes"):
                # linked reads: per island a few molecules, each one haplotype and one barcode; barcodes are unique within an
                # island but drawn from a small pool, so the same barcode recurs on another island (> cutoff away), possibly
                # on the other haplotype (a barcode collision between distant molecules)
                pool = ["ACGT%04d" % i for i in range(p["barcodes"])]
                molecules = {}
                for wi in range(len(windows or [None])):
                    bcs = rng.sample(pool, min(len(pool), rng.randint(2, 4)))
                    molecules[wi] = [(bc, rng.randint(0, 1)) for bc in bcs]
            for _ in range(nfrag):
                h = rng.randint(0, 1)
                fl = rng.randint(rl_min, rl_max)
                bx = None
                if windows:
                    wi = rng.randrange(len(windows))
                    wlo, whi = windows[wi]
                    a = rng.randrange(wlo - fl // 2, whi - fl // 2)
                    a, b = max(wlo, a), min(whi, a + fl)
                else:
                    wi = 0
                    a = rng.randrange(-fl // 2, L - fl // 2)
                    a, b = max(0, a), min(L, a + fl)
                if molecules:
                    bx, h = rng.choice(molecules[wi])
                if vs and rng.random() < p.get("edge_frac", 0.0):
                    # snap one end of the fragment to the neighbourhood of a variant (first/last aligned base cases)
                    v = rng.choice(vs)
                    off = rng.randint(-3, len(v.ref) + v.shift + 3)
                    if rng.random() < 0.5:
                        a = min(max(0, v.pos + off), L - 31)
                        b = min(L, a + fl)
                    else:
                        b = min(L, max(31, v.pos + off))
                        a = max(0, b - fl)
                if b - a < 30:
                    continue
                paired = rng.random() < p.get("paired", 0.0) and (b - a) >= 120
                if paired:
                    lo, hi = p.get("mate_len", (30, (b - a) // 2 - 10))
                    if p.get("mate_overlap"):
                        lo, hi = (b - a) // 2, int((b - a) * 0.85)  # the two mates overlap in the middle of the fragment
                    else:
                        hi = min(hi, (b - a) // 2 - 10)
                    lo = min(lo, hi)
                    l1 = rng.randint(lo, hi)
                    l2 = rng.randint(lo, hi)
                    parts = [(a, a + l1), (b - l2, b)]
                else:
                    parts = [(a, b)]
                ok = True
                built = []
                for x, y in parts:
                    if end_policy == "clean" and any(lo <= x < hi or lo <= y - 1 < hi for lo, hi in multi):
                        ok = False
                        break
                    ie = None
                    if p.get("ins_end") and rng.random() < p["ins_end"]:
                        ie = "anchor" if rng.random() < 0.5 else "partial:%d" % rng.randrange(1000)
                    r = read_from_haplotype(refseq, vs, sim.haps[c][s][h], x, y, edge_ins=rng.random() < p.get("edge_ins", 0.0), ins_end=ie)
                    if r is None:
                        ok = False
                        break
                    if p.get("aligner_like_ends") and rng.random() < p["aligner_like_ends"]:
                        r = (r[0], aligner_like_end(refseq, x, r[0], r[1]))
                    built.append((x, r[0], r[1]))
                if not ok:
                    continue
                name = "f%06d" % rid
                rid += 1
                if p.get("nskip") and len(built) == 2 and rng.random() < p["nskip"] and built[1][0] > built[0][0] + _reflen(built[0][2]):
                    # one spliced alignment instead of two mates: block1 N block2
                    (x1, s1, c1), (x2, s2, c2) = built
                    gap = x2 - (x1 + _reflen(c1))
                    built = [(x1, s1 + s2, list(c1) + [(3, gap)] + list(c2))]
                if p.get("decorate") and rng.random() < p["decorate"]:
                    built = [decorate(rng, refseq, x, seq, cig, p) for (x, seq, cig) in built]
                for k, (x, seq, cig) in enumerate(built):
                    if err > 0 and c not in p.get("quiet_chroms", ()):
                        sl = list(seq)
                        for i in range(len(sl)):
                            if rng.random() < err:
                                sl[i] = rng.choice([bb for bb in BASES if bb != sl[i]])
                        seq = "".join(sl)
                    sim.reads.append(
                        {"name": name, "chrom": c, "sample": s, "hap": h, "start": x, "cigar": cig, "seq": seq, "part": k, "nparts": len(built), "bx": bx}
                    )
    # ---------- BAM(s)
    header = {
        "HD": {"VN": "1.5", "SO": "coordinate"},
        "SQ": [{"SN": c, "LN": len(sim.ref[c])} for c in sim.chroms],
        # rg_only_read_samples: a sample that was not sequenced has no read group in the header either
        "RG": [{"ID": "rg_" + s, "SM": s} for s in (p.get("read_samples", samples) if p.get("rg_only_read_samples") else samples)],
    }
    qual_mode = p.get("qual_mode", "const")
    groups = {}
    if p.get("per_sample_bam", False):
        for s in samples:
            groups[s] = [r for r in sim.reads if r["sample"] == s]
    else:
        groups["all"] = sim.reads
    rename = {}
    if p.get("split_bams"):
        # every input file is cut into several files (as from several sequencing runs); each file numbers its reads from 0,
        # so read names recur across the files of one sample
        newgroups = {}
        for g, reads in groups.items():
            part_of = {}
            counters_ = {}
            for r in reads:
                if r["name"] not in part_of:
                    k = rng.randrange(p["split_bams"])
                    part_of[r["name"]] = k
                    rename[r["name"]] = "read%d" % counters_.get(k, 0)
                    counters_[k] = counters_.get(k, 0) + 1
                newgroups.setdefault("%s_run%d" % (g, part_of[r["name"]]), []).append(r)
        groups = newgroups
    if p.get("names_per_chrom"):
        # read numbering restarts on every contig (as some simulators and mergers do): names recur across contigs
        cnt = {}
        for r in sim.reads:
            if r["name"] not in rename:
                k = cnt.get((r["chrom"], r["sample"]), 0)
                cnt[(r["chrom"], r["sample"])] = k + 1
                rename[r["name"]] = "%s_read%d" % (r["sample"], k)
    if p.get("names_per_sample"):
        # one file holding several samples (read groups) whose reads are numbered independently: names recur across samples
        cnt = {}
        for r in sim.reads:
            if r["name"] not in rename:
                k = cnt.get(r["sample"], 0)
                cnt[r["sample"]] = k + 1
                rename[r["name"]] = "read%d" % k
    sim.bam_names = rename
    sim.bams = []
    sim.bam_of = {}  # original fragment name -> index of the file (= source id) it was written to
    for gi, (g, reads) in enumerate(groups.items()):
        for r in reads:
            sim.bam_of[r["name"]] = gi
    for g, reads in groups.items():
        path = os.path.join(tmp, "reads_%s.bam" % g)
        order = sorted(reads, key=lambda r: (sim.chroms.index(r["chrom"]), r["start"]))
        hdr = header
        reuse = bool(p.get("rg_id_reuse") and p.get("per_sample_bam", False))
        if reuse:
            # every per-sample file names its only read group "1" (what independent mapping runs produce)
            hdr = dict(header)
            hdr["RG"] = [{"ID": "1", "SM": g.split("_run")[0]}]
        with pysam.AlignmentFile(path, "wb", header=hdr) as out:
            for r in order:
                a = pysam.AlignedSegment(out.header)
                a.query_name = rename.get(r["name"], r["name"])
                a.reference_id = sim.chroms.index(r["chrom"])
                a.reference_start = r["start"]
                a.mapping_quality = 60
                a.cigartuples = r["cigar"]
                a.query_sequence = r["seq"]
                if qual_mode == "const":
                    a.query_qualities = pysam.qualitystring_to_array("I" * len(r["seq"]))
                elif qual_mode == "zeros":
                    # base qualities including 0: an allele observed with quality 0 has weight 0 but still covers the variant
                    a.query_qualities = pysam.qualitystring_to_array("".join(chr(33 + (0 if rng.random() < 0.3 else rng.randint(12, 40))) for _ in r["seq"]))
                else:
                    a.query_qualities = pysam.qualitystring_to_array("".join(chr(33 + rng.randint(12, 40)) for _ in r["seq"]))
                flag = 0
                if r["nparts"] == 2:
                    flag = 1 | 2 | (64 if r["part"] == 0 else 128) | (32 if r["part"] == 0 else 16)
                    mate = [m for m in reads if m["name"] == r["name"] and m["part"] != r["part"]][0]
                    a.next_reference_id = a.reference_id
                    a.next_reference_start = mate["start"]
                a.flag = flag
                a.set_tag("RG", "1" if reuse else "rg_" + r["sample"])
                if r.get("bx"):
                    a.set_tag("BX", r["bx"] + "-" + r["sample"][-1])
                out.write(a)
        pysam.index(path)
        sim.bams.append(path)
    # ---------- VCF
    from wv.gen import vcf as gvcf

    d = gvcf.Doc()
    d.samples = list(samples) + list(p.get("extra_vcf_samples", []))
    d.contigs = list(sim.chroms)
    d.meta.append("##fileformat=VCFv4.2")
    for c in sim.chroms:
        d.meta.append("##contig=<ID=%s,length=%d>" % (c, len(sim.ref[c])))
    d.meta.append('##INFO=<ID=DP,Number=1,Type=Integer,Description="depth">')
    d.meta.append('##FORMAT=<ID=GT,Number=1,Type=String,Description="Genotype">')
    d.meta.append('##FORMAT=<ID=GQ,Number=1,Type=Integer,Description="GQ">')
    if p.get("with_pl", False):
        d.meta.append('##FORMAT=<ID=PL,Number=G,Type=Integer,Description="PL">')
    sim.hidden = {c: set() for c in sim.chroms}
    if p.get("hidden_frac"):
        for c in sim.chroms:
            for i in range(len(sim.variants[c])):
                if rng.random() < p["hidden_frac"]:
                    sim.hidden[c].add(i)
    if p.get("chain_contigs") and p.get("shared_positions") and len(sim.chroms) > 1 and not p.get("companions") and not p.get("covering_deletions"):
        # contig i lists the variants k_i .. k_(i+1) of the shared list only: the first record of a contig has the POS of the last
        # record of the contig before it
        n = len(sim.variants[sim.chroms[0]])
        if n >= 2 * len(sim.chroms):
            cuts = [0] + sorted(rng.sample(range(1, n - 1), len(sim.chroms) - 1)) + [n - 1]
            for ci, c in enumerate(sim.chroms):
                for i in range(n):
                    if not (cuts[ci] <= i <= cuts[ci + 1]):
                        sim.hidden[c].add(i)
    for c in sim.chroms:
        for i, v in enumerate(sim.variants[c]):
            if v.hid:
                sim.hidden[c].add(i)
    for c in sim.chroms:
        for i, v in enumerate(sim.variants[c]):
            if i in sim.hidden[c]:
                continue
            calls = []
            fmt = ["GT", "GQ"] + (["PL"] if p.get("with_pl", False) else [])
            for s in d.samples:
                if s in sim.haps[c]:
                    g = sorted([sim.haps[c][s][0][i], sim.haps[c][s][1][i]])
                    if p.get("gt_override") and (c, i, s) in p["gt_override"]:
                        g = p["gt_override"][(c, i, s)]
                    noise = p.get("gt_noise") if c not in p.get("quiet_chroms", ()) else None
                    if noise:
                        rr = rng.random()
                        if rr < noise[1]:
                            g = None
                        elif rr < noise[1] + noise[0]:
                            g = rng.choice([[0, 0], [0, 1], [1, 1]])
                    if g is None:
                        g = [".", "."]
                    gt = "/".join(str(x) for x in g)
                    if rng.random() < p.get("unsorted_gt", 0.0) and g[0] != g[1] and "." not in g:
                        gt = "%d/%d" % (g[1], g[0])
                else:
                    gt = rng.choice(["0/1", "0/0", "1/1"])
                call = {"GT": gt, "GQ": str(rng.randint(20, 99))}
                if p.get("with_pl", False):
                    pl = [rng.randint(20, 60)] * 3
                    if "." not in gt:
                        pl[sum(int(x) for x in gt.split("/"))] = 0
                    call["PL"] = ",".join(str(x) for x in pl)
                calls.append(call)
            d.records.append(
                {"chrom": c, "pos": v.pos + 1, "id": ".", "ref": v.ref, "alts": [v.alt], "qual": "50", "filter": "PASS",
                 "info": "DP=%d" % rng.randint(5, 90), "fmt": fmt, "calls": calls, "kind": v.kind}
            )
    sim.doc = d
    sim.vcf = os.path.join(tmp, "in.vcf" + (".gz" if p.get("vcf_compress") else ""))
    d.write(sim.vcf, compress=bool(p.get("vcf_compress")))
    if ped:
        sim.ped = os.path.join(tmp, "family.ped")
        with open(sim.ped, "w") as fh:
            for f, m, ch in ped:
                fh.write("fam1\t%s\t%s\t%s\t0\t1\n" % (ch, f, m))
    else:
        sim.ped = None
    return sim


def truth_phased_doc(sim, rng, tag="PS", block_len=(3, 8), samples=None, interleave=False, flip_blocks=True, no_ps=False, hp_unsorted=0.0):
    """A copy of sim.doc in which heterozygous calls of `samples` carry the TRUE phase, encoded with PS or HP, cut into
    blocks of random length (optionally two interleaved block series). Returns (doc, blocks) where
    blocks[(chrom, sample)] = {block_id: [(pos1, (a0, a1)), ...]}."""
    import copy

    from wv.gen import vcf as gvcf

    d = gvcf.Doc()
    d.meta = list(sim.doc.meta)
    d.samples = list(sim.doc.samples)
    d.contigs = list(sim.doc.contigs)
    if tag == "PS":
        if not no_ps:
            d.meta.append('##FORMAT=<ID=PS,Number=1,Type=Integer,Description="Phase set identifier">')
    else:
        d.meta.append('##FORMAT=<ID=HP,Number=.,Type=String,Description="Phasing haplotype identifier">')
    d.records = copy.deepcopy(sim.doc.records)
    samples = samples or sim.samples
    blocks = {}
    for s in samples:
        si = d.samples.index(s)
        for c in sim.chroms:
            nser = 1 if not interleave else (2 if interleave is True else int(interleave))
            state = [None] * max(2, nser)  # interleaved series of blocks: [block_id, remaining, flip]
            for r in d.records:
                if r["chrom"] != c:
                    continue
                i = [v.pos + 1 for v in sim.variants[c]].index(r["pos"])
                a0, a1 = sim.haps[c][s][0][i], sim.haps[c][s][1][i]
                call = r["calls"][si]
                if a0 == a1 or "." in call["GT"]:
                    continue
                k = rng.randrange(nser) if interleave else 0
                st = state[k]
                if no_ps:
                    # '|' genotypes without any PS field: one unnamed phase set (0) per chromosome
                    if st is None:
                        st = state[k] = [0, 10**9, rng.random() < 0.5 and flip_blocks]
                elif st is None or st[1] <= 0:
                    st = state[k] = [r["pos"], rng.randint(*block_len), rng.random() < 0.5 and flip_blocks]
                st[1] -= 1
                al = (a1, a0) if st[2] else (a0, a1)
                blocks.setdefault((c, s), {}).setdefault(st[0], []).append((r["pos"], (str(al[0]), str(al[1]))))
                if tag == "PS":
                    call["GT"] = "%d|%d" % al
                    if not no_ps:
                        call["PS"] = str(st[0])
                else:
                    g = sorted(al)
                    if hp_unsorted and rng.random() < hp_unsorted:
                        g.reverse()  # GT written in descending order (1/0), HP relative to that order: legal, other tools write it
                    call["GT"] = "%d/%d" % (g[0], g[1])
                    # k-th GT allele lies on haplotype (index of that allele in al) + 1
                    call["HP"] = ",".join("%d-%d" % (st[0], al.index(x) + 1) for x in g)
        key = "PS" if tag == "PS" else "HP"
    for r in d.records:
        if any(key in c for c in r["calls"]):
            r["fmt"] = r["fmt"] + [key]
            for c in r["calls"]:
                c.setdefault(key, ".")
    return d, blocks


def simulate_poly(rng, tmp, p):
    """Polyploid data set: SNVs (bi- and multi-allelic), P true haplotypes per sample (optionally with identical copies =
    collapsed haplotypes), reads = haplotype copies with optional substitution errors, coverage gaps. Plain M CIGARs."""
    import pysam

    from wv.gen import vcf as gvcf

    sim = Sim()
    P = p.get("ploidy", 4)
    samples = list(p.get("samples", ["sampleA"]))
    sim.samples, sim.ploidy = samples, P
    sim.chroms = ["chr%d" % (i + 1) for i in range(p.get("n_chrom", 1))]
    sim.ref, sim.variants, sim.haps = {}, {}, {}
    L = p.get("chrom_len", 3000)
    for c in sim.chroms:
        refseq = random_reference(rng, L)
        sim.ref[c] = refseq
        n = p.get("n_var", 15)
        pos = sorted(rng.sample(range(40, L - 40, 1), n * 3))
        chosen = []
        for x in pos:
            if not chosen or x - chosen[-1] >= p.get("min_gap", 20):
                chosen.append(x)
        chosen = chosen[:n]
        if p.get("shared_positions") and c != sim.chroms[0]:
            chosen = [v["pos"] for v in sim.variants[sim.chroms[0]]]  # the same coordinates on every chromosome
        elif p.get("adjacent_cut") and len(chosen) >= 4:
            # two SNVs on directly neighbouring reference positions with a coverage break exactly between them
            x = chosen[rng.randrange(1, len(chosen) - 1)]
            if x + 1 not in chosen:
                chosen = sorted(chosen + [x + 1])
                sim.cuts = getattr(sim, "cuts", {})
                sim.cuts[c] = x + 1
        dead = p.get("dead_chrom") if (c == sim.chroms[-1] and len(sim.chroms) > 1) else None
        vs = []
        for x in chosen:
            ref = refseq[x]
            others = [b for b in BASES if b != ref]
            rng.shuffle(others)
            nalt = 2 if rng.random() < p.get("multiallelic", 0.0) else 1
            vs.append({"pos": x, "ref": ref, "alts": others[:nalt]})
        sim.variants[c] = vs
        haps = {}
        for s in samples:
            base = []
            distinct = rng.randint(2, P) if rng.random() < p.get("collapse", 0.0) else P
            for h in range(distinct):
                base.append([rng.randint(0, len(v["alts"])) if rng.random() < 0.6 else 0 for v in vs])
            hs = [base[h % distinct][:] for h in range(P)]
            if s in p.get("all_het_samples", ()):
                for i in range(len(vs)):
                    hs[0][i], hs[1][i] = 0, 1  # heterozygous at every variant: nothing for polyphase to discard
            if dead == "hom":
                # a chromosome on which the sample cannot be phased: at most one heterozygous variant
                keep = rng.randrange(len(vs)) if vs and rng.random() < 0.7 else -1
                for i in range(len(vs)):
                    if i != keep:
                        for h in range(1, P):
                            hs[h][i] = hs[0][i]
            haps[s] = hs
        sim.haps[c] = haps
    sim.fasta = os.path.join(tmp, "ref.fa")
    with open(sim.fasta, "w") as fh:
        for c in sim.chroms:
            fh.write(">%s\n" % c)
            s_ = sim.ref[c]
            for i in range(0, len(s_), 60):
                fh.write(s_[i : i + 60] + "\n")
    pysam.faidx(sim.fasta)
    header = {"HD": {"VN": "1.5", "SO": "coordinate"}, "SQ": [{"SN": c, "LN": L} for c in sim.chroms],
              "RG": [{"ID": "rg_" + s, "SM": s} for s in samples]}
    sim.reads = []
    rid = 0
    err = p.get("error_rate", 0.0)
    depth = p.get("depth", 8)
    rl_min, rl_max = p.get("read_len", (200, 800))
    gaps = []
    for _ in range(p.get("coverage_gaps", 0)):
        vpos = [v["pos"] for v in sim.variants[sim.chroms[0]]]
        if p.get("gaps_between_variants") and len(vpos) >= 4:
            # a read-free stretch between two neighbouring variants: the read-connected blocks end there
            i = rng.randrange(1, len(vpos) - 2)
            if vpos[i + 1] - vpos[i] >= 12:
                gaps.append((vpos[i] + 3, vpos[i + 1] - 3))
            continue
        g = rng.randrange(200, L - 400)
        gaps.append((g, g + rng.randint(100, 400)))
    sim.gaps = list(gaps)
    for c in sim.chroms:
        for s in samples:
            nfrag = max(1, int(depth * P * L / ((rl_min + rl_max) / 2)))
            if p.get("dead_chrom") == "noreads" and c == sim.chroms[-1] and len(sim.chroms) > 1:
                continue
            for _ in range(nfrag):
                h = rng.randrange(P)
                fl = rng.randint(rl_min, rl_max)
                a = max(0, rng.randrange(-fl // 2, L - fl // 2))
                b = min(L, a + fl)
                if b - a < 40 or any(a < g1 and b > g0 for g0, g1 in gaps):
                    continue
                cut = getattr(sim, "cuts", {}).get(c)
                if cut is not None and a < cut < b:
                    # no read crosses the cut: keep the part left or right of it
                    if rng.random() < 0.5:
                        b = cut
                    else:
                        a = cut
                    if b - a < 40:
                        continue
                win = p.get("read_window", {}).get(s)
                if win and not (win[0] <= a and b <= win[1]):
                    continue  # this sample's reads reach only part of the contig
                seq = list(sim.ref[c][a:b])
                for v, al in zip(sim.variants[c], sim.haps[c][s][h]):
                    if a <= v["pos"] < b and al > 0:
                        seq[v["pos"] - a] = v["alts"][al - 1]
                if err:
                    for i in range(len(seq)):
                        if rng.random() < err:
                            seq[i] = rng.choice([x for x in BASES if x != seq[i]])
                seq = "".join(seq)
                if rng.random() < p.get("paired", 0.0) and b - a >= 200:
                    l1 = rng.randint(40, (b - a) // 2 - 20)
                    l2 = rng.randint(40, (b - a) // 2 - 20)
                    sim.reads.append({"name": "p%06d" % rid, "chrom": c, "sample": s, "hap": h, "start": a, "seq": seq[:l1], "mate": 1, "mate_start": b - l2})
                    sim.reads.append({"name": "p%06d" % rid, "chrom": c, "sample": s, "hap": h, "start": b - l2, "seq": seq[len(seq) - l2:], "mate": 2, "mate_start": a})
                else:
                    sim.reads.append({"name": "p%06d" % rid, "chrom": c, "sample": s, "hap": h, "start": a, "seq": seq})
                rid += 1
    path = os.path.join(tmp, "reads.bam")
    with pysam.AlignmentFile(path, "wb", header=header) as out:
        for r in sorted(sim.reads, key=lambda r: (sim.chroms.index(r["chrom"]), r["start"])):
            a = pysam.AlignedSegment(out.header)
            a.query_name = r["name"]
            a.reference_id = sim.chroms.index(r["chrom"])
            a.reference_start = r["start"]
            a.mapping_quality = 60
            a.cigartuples = [(0, len(r["seq"]))]
            a.query_sequence = r["seq"]
            a.query_qualities = pysam.qualitystring_to_array("I" * len(r["seq"]))
            a.flag = 0
            if r.get("mate"):
                a.flag = 1 | 2 | (64 | 32 if r["mate"] == 1 else 128 | 16)
                a.next_reference_id = a.reference_id
                a.next_reference_start = r["mate_start"]
            a.set_tag("RG", "rg_" + r["sample"])
            out.write(a)
    pysam.index(path)
    sim.bams = [path]
    d = gvcf.Doc()
    d.samples = list(samples)
    d.contigs = list(sim.chroms)
    d.meta.append("##fileformat=VCFv4.2")
    for c in sim.chroms:
        d.meta.append("##contig=<ID=%s,length=%d>" % (c, L))
    d.meta.append('##INFO=<ID=DP,Number=1,Type=Integer,Description="depth">')
    d.meta.append('##FORMAT=<ID=GT,Number=1,Type=String,Description="Genotype">')
    d.meta.append('##FORMAT=<ID=GQ,Number=1,Type=Integer,Description="GQ">')
    for c in sim.chroms:
        for i, v in enumerate(sim.variants[c]):
            calls = []
            for s in samples:
                g = sorted(sim.haps[c][s][h][i] for h in range(P))
                if p.get("gt_noise") and rng.random() < p["gt_noise"]:
                    # a genotype call that disagrees with the reads: one allele copy replaced by another allele of the record
                    for k in rng.sample(range(P), 2 if (P >= 3 and rng.random() < 0.4) else 1):
                        g[k] = rng.choice([x for x in range(len(v["alts"]) + 1) if x != g[k]])
                    g.sort()
                    sim.gt_noise_sites = getattr(sim, "gt_noise_sites", 0) + 1
                if p.get("gt_missing") and rng.random() < p["gt_missing"]:
                    g = ["."] * P
                calls.append({"GT": "/".join(str(x) for x in g), "GQ": str(rng.randint(20, 99))})
            d.records.append({"chrom": c, "pos": v["pos"] + 1, "id": ".", "ref": v["ref"], "alts": v["alts"], "qual": "50", "filter": "PASS",
                              "info": "DP=%d" % rng.randint(5, 90), "fmt": ["GT", "GQ"], "calls": calls, "kind": "snv"})
    sim.doc = d
    sim.vcf = os.path.join(tmp, "in.vcf")
    d.write(sim.vcf)
    return sim


def truth_phased_doc_poly(sim, rng, block_len=(3, 8), straddle=0.0, cut_at_gaps=False):
    """Polyploid truth phasing encoded with PS: GT = alleles of the P haplotypes in a per-block random haplotype order.
    straddle: probability that a new block continues the phase set before the previous one (a long-range set with another set
    nested in its gap). cut_at_gaps: phase sets end where the read coverage is interrupted (sim.gaps), so that with straddle a
    set has variants on both sides of a read-connected stretch but none inside it."""
    import copy

    from wv.gen import vcf as gvcf

    d = gvcf.Doc()
    d.meta = list(sim.doc.meta) + ['##FORMAT=<ID=PS,Number=1,Type=Integer,Description="Phase set identifier">']
    d.samples = list(sim.doc.samples)
    d.contigs = list(sim.doc.contigs)
    d.records = copy.deepcopy(sim.doc.records)
    P = sim.ploidy
    blocks = {}
    for s in sim.samples:
        si = d.samples.index(s)
        for c in sim.chroms:
            st = None
            history = []
            for r in d.records:
                if r["chrom"] != c:
                    continue
                i = [v["pos"] + 1 for v in sim.variants[c]].index(r["pos"])
                al = [sim.haps[c][s][h][i] for h in range(P)]
                if len(set(al)) < 2:
                    continue
                seg = sum(1 for g0, g1 in getattr(sim, "gaps", []) if g0 < r["pos"]) if cut_at_gaps else 0
                if st is not None and cut_at_gaps and seg != st[3]:
                    st[1] = 0
                if st is None or st[1] <= 0:
                    perm = list(range(P))
                    rng.shuffle(perm)
                    st = [r["pos"], rng.randint(*block_len) if not cut_at_gaps else 10 ** 6, perm, seg]
                    if straddle and len(history) >= 2 and rng.random() < straddle:
                        st = [history[-2][0], rng.randint(*block_len) if not cut_at_gaps else 10 ** 6, history[-2][2], seg]
                    history.append(st)
                st[1] -= 1
                ordered = tuple(al[st[2][h]] for h in range(P))
                r["calls"][si]["GT"] = "|".join(str(x) for x in ordered)
                r["calls"][si]["PS"] = str(st[0])
                blocks.setdefault((c, s), {}).setdefault(st[0], []).append((r["pos"], tuple(str(x) for x in ordered)))
    for r in d.records:
        if any("PS" in c for c in r["calls"]):
            r["fmt"] = r["fmt"] + ["PS"]
            for c in r["calls"]:
                c.setdefault("PS", ".")
    return d, blocks
