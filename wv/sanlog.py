"""Parse AddressSanitizer / UBSan log text into report blocks and decide whether the
innermost non-runtime frame lies in repository-owned native code."""
import re

_RUNTIME = (
    "libasan",
    "libubsan",
    "libc.so",
    "libc-",
    "libstdc++",
    "libgcc",
    "sanitizer_common",
    "asan_",
    "/libsanitizer/",
    "ld-linux",
)
_FRAME = re.compile(r"^\s*#(\d+)\s+0x[0-9a-f]+\s+(?:in\s+)?(.*)$")
_UB = re.compile(r"^(\S+?):(\d+):(\d+): runtime error: (.*)$")


def _is_runtime(loc):
    return any(r in loc for r in _RUNTIME)


def _is_repo(loc):
    if "wv-cache" in loc:
        return True
    if re.search(r"(^|[\s/(])src/[\w/]+\.(cpp|h)", loc):
        return True
    if re.search(r"(^|[\s/(])whatshap/[\w/]+\.(cpp|pyx|so)", loc):
        return True
    if re.search(r"whatshap/[\w/]*\w+\.cpython-\d+[\w-]*\.so", loc):
        return True
    return False


def _strip_line(loc):
    return re.sub(r":\d+(:\d+)?\s*$", "", loc.strip())


_VG_HEAD = re.compile(r"^==\d+== (Conditional jump or move depends on uninitialised value|Use of uninitialised value|Invalid read|Invalid write|"
                      r"Invalid free|Mismatched free|Source and destination overlap|Syscall param .* uninitialised|Jump to the invalid address|"
                      r"Process terminating with default action of signal 11)")
_VG_FRAME = re.compile(r"^==\d+==\s+(?:at|by) 0x[0-9A-Fa-f]+: (.*)$")
_VG_RUNTIME = ("vgpreload", "/valgrind/", "libc.so", "libc-", "libstdc++", "libgcc", "ld-linux", "(dl-", "(rtld-", "strcmp-", "strdup.c", "memmove-", "memcpy", "memset-")


def parse_valgrind(text):
    """memcheck report blocks; 'repo' = the innermost frame that is not libc / the valgrind preload lies in repository code."""
    reports = []
    lines = text.splitlines()
    i, n = 0, len(lines)
    while i < n:
        m = _VG_HEAD.match(lines[i])
        if not m:
            i += 1
            continue
        block = [lines[i]]
        frames = []
        j = i + 1
        while j < n and re.match(r"^==\d+==\s+\S", lines[j]):
            fm = _VG_FRAME.match(lines[j])
            if fm:
                frames.append(fm.group(1))
            elif frames and not lines[j].strip().endswith(":"):
                pass
            if re.match(r"^==\d+==\s+(Address|Uninitialised value was)", lines[j]):
                # the allocation / origin stack that follows is context, not the faulting stack
                while j < n and re.match(r"^==\d+==\s+\S", lines[j]):
                    block.append(lines[j])
                    j += 1
                break
            block.append(lines[j])
            j += 1
        inner = None
        for f in frames:
            if not any(r in f for r in _VG_RUNTIME):
                inner = f
                break
        repo = bool(inner) and _is_repo(inner)
        fr = re.sub(r"\((?:in )?/\S*/", "(", inner or "?")
        fr = re.sub(r":\d+\)", ")", fr)[:90]
        reports.append({"kind": "valgrind:" + m.group(1)[:40].strip().replace(" ", "-"), "repo": repo, "frame": fr, "text": "\n".join(block[:60])})
        i = j
    return reports


def parse(text):
    if re.search(r"^==\d+== ", text, re.M) and "AddressSanitizer" not in text:
        return parse_valgrind(text)
    reports = []
    lines = text.splitlines()
    i = 0
    n = len(lines)
    while i < n:
        line = lines[i]
        m = _UB.match(line.strip())
        if m:
            block = [line]
            j = i + 1
            frames = []
            while j < n and (lines[j].startswith("    #") or _FRAME.match(lines[j])):
                fm = _FRAME.match(lines[j])
                if fm:
                    frames.append(fm.group(2))
                block.append(lines[j])
                j += 1
            loc = m.group(1)
            kind = "ubsan:" + re.sub(r"[0-9x]+", "N", m.group(4))[:50]
            repo = _is_repo(loc) or (not loc.startswith("/usr") and any(_is_repo(f) for f in frames[:1]))
            frame = _strip_line(loc).split("/")[-1]
            reports.append({"kind": kind, "repo": repo, "frame": frame, "text": "\n".join(block)})
            i = j
            continue
        if "ERROR: AddressSanitizer" in line:
            block = [line]
            km = re.search(r"AddressSanitizer: ([\w-]+)", line)
            kind = "asan:" + (km.group(1) if km else "unknown")
            j = i + 1
            frames = []
            first_stack_done = False
            while j < n and "SUMMARY: AddressSanitizer" not in lines[j] and j - i < 400:
                fm = _FRAME.match(lines[j])
                if fm and not first_stack_done:
                    frames.append(fm.group(2))
                elif frames and not fm:
                    first_stack_done = True
                block.append(lines[j])
                j += 1
            if j < n:
                block.append(lines[j])
            inner = None
            for f in frames:
                if not _is_runtime(f):
                    inner = f
                    break
            repo = bool(inner) and _is_repo(inner)
            fr = _strip_line(inner or "?")
            fr = re.sub(r"0x[0-9a-f]+", "", fr)
            fr = fr.split(" ")[0][:80]
            reports.append({"kind": kind, "repo": repo, "frame": fr, "text": "\n".join(block[:60])})
            i = j + 1
            continue
        i += 1
    return reports
