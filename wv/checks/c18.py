"""C18 — priority queue and component finder against their abstract models.

Monitors: O-heap (dict item->score), O-components (BFS), icontract forest invariant on
ComponentFinder (parent.value < value) evaluated after every public call.
"""
import hashlib
import itertools
import json

ID = "C18"
LEVEL = "exploration"
NEEDS_DEPS = True
RULE = (
    "PriorityQueue: every operation sequence (push of an unqueued item and of an item that is still queued - refusal or score replacement accepted -, pop incl. pop-on-empty, "
    "change_score of a queued item; lookups/len/is_empty of all items checked after every step) up to depth D "
    "over items {0,1,2} x a 3-value score domain (scalar, equal-length tuples, mixed-length tuples) "
    "[D=5 quick, 6 thorough; sanitizer lane one less], plus random histories of length <=300 over <=12 items aimed at root/inner/leaf "
    "entries; ComponentFinder: every ordered merge sequence up to length L over 5 values [L=3 quick, 4 thorough, "
    "+ all unordered length-5], plus random merges over <=30 int/str values. Non-trivial: a history containing a pop "
    "with >=2 queued items after a change_score, or a merge sequence that joins two non-singleton components; "
    "distinct by hash of the operation sequence."
)
EXHAUSTIVE = {"quick": False, "thorough": False}
REQUIRED_COUNTERS = ["pq_ops", "pq_pops_checked", "cf_finds_checked", "cf_invariant_evals"]
ASSUMPTIONS = [
    "a push of a queued item and a change_score of an unqueued one may be refused or (push) replace the score; the queue must stay consistent",
    "any maximal-score item is accepted on pop (ties are not ordered by the statement)",
]

SCORE_DOMAINS = [
    [0, 1, 2],
    [(0, 0), (0, 1), (1, 0)],
    [(0,), (0, 0), (1,)],
    [-1, 0, (0, -1)],
]
ITEMS = [0, 1, 2]


def lanes(tier):
    if tier == "quick":
        return [("plain", "plain", 4 * 9 + 60 + 20 + 40), ("san", "san", 4 * 9 + 20 + 20 + 10)]
    return [("plain", "plain", 4 * 9 + 1200 + 20 + 400 + 10), ("san", "san", 4 * 9 + 300 + 20 + 100 + 10), ("vg-san", "vg", list(range(0, 4 * 9 + 300 + 20 + 100 + 10, 29)))]


def _tup(s):
    return (s,) if isinstance(s, int) else tuple(s)


def _norm(s):
    t = _tup(s)
    return t[0] if len(t) == 1 else t


class Viol(Exception):
    pass


class PQModel:
    """Reference model + oracle wrapped around a real queue."""

    def __init__(self, PQ, counters):
        self.q = PQ()
        self.m = {}
        self.c = counters
        self.log = []

    def check_lookups(self, universe):
        q, m = self.q, self.m
        if len(q) != len(m):
            raise Viol("len %d != model %d after %s" % (len(q), len(m), self.log))
        if q.is_empty() != (len(m) == 0):
            raise Viol("is_empty %s with %d queued after %s" % (q.is_empty(), len(m), self.log))
        for it in universe:
            got = q.get_score_by_item(it)
            exp = _norm(m[it]) if it in m else None
            if got != exp:
                raise Viol("get_score_by_item(%s)=%r expected %r after %s" % (it, got, exp, self.log))
        self.c["pq_lookups_checked"] = self.c.get("pq_lookups_checked", 0) + len(universe)

    def push(self, score, item):
        self.log.append(("push", score, item))
        self.c["pq_ops"] = self.c.get("pq_ops", 0) + 1
        if item in self.m:
            # pushing an item that is still queued: the statement speaks of "the scores last assigned" and "exactly the items still
            # queued", i.e. one entry per item. Refusing (an exception, nothing changes) and replacing the score are both
            # accepted; which of the two happened is read off len(); a second entry for the item is a corrupted queue
            self.c["pq_push_queued_item"] = self.c.get("pq_push_queued_item", 0) + 1
            try:
                self.q.push(score, item)
            except (KeyError, ValueError):
                return
            if len(self.q) != len(self.m):
                raise Viol("push(%r, %r) of an item that is still queued left %d entries for %d items after %s" % (score, item, len(self.q), len(self.m), self.log))
            self.m[item] = score
            return
        self.q.push(score, item)
        self.m[item] = score

    def change(self, item, score):
        self.log.append(("change", item, score))
        self.c["pq_ops"] = self.c.get("pq_ops", 0) + 1
        if item not in self.m:
            # changing the score of an item that is not queued: refusing (an exception) or ignoring it are both fine, but the
            # queue must afterwards still report exactly the queued items with their scores (checked by the lookups that follow)
            try:
                self.q.change_score(item, score)
            except (KeyError, IndexError, ValueError):
                pass
            self.c["pq_change_absent_item"] = self.c.get("pq_change_absent_item", 0) + 1
            return
        self.q.change_score(item, score)
        self.m[item] = score

    def pop(self):
        self.log.append(("pop",))
        self.c["pq_ops"] = self.c.get("pq_ops", 0) + 1
        if not self.m:
            try:
                r = self.q.pop()
            except IndexError:
                self.c["pq_pop_empty_checked"] = self.c.get("pq_pop_empty_checked", 0) + 1
                return None
            raise Viol("pop on empty queue returned %r after %s" % (r, self.log))
        try:
            score, item = self.q.pop()
        except IndexError:
            raise Viol("pop raised IndexError with %d items queued after %s" % (len(self.m), self.log))
        if item not in self.m:
            raise Viol("pop returned item %r that is not queued (model %r) after %s" % (item, self.m, self.log))
        best = max(_tup(s) for s in self.m.values())
        if _tup(self.m[item]) != best:
            raise Viol(
                "pop returned item %r with score %r but maximal score is %r (model %r) after %s"
                % (item, self.m[item], best, self.m, self.log)
            )
        if score != _norm(self.m[item]):
            raise Viol("pop returned score %r for item %r, last assigned %r after %s" % (score, item, self.m[item], self.log))
        del self.m[item]
        self.c["pq_pops_checked"] = self.c.get("pq_pops_checked", 0) + 1
        return item


def _pq_replay(PQ, ops, universe, counters):
    """Replay ops; returns the model (raises Viol)."""
    mo = PQModel(PQ, counters)
    for op in ops:
        if op[0] == "push":
            mo.push(op[1], op[2])
        elif op[0] == "change":
            mo.change(op[1], op[2])
        else:
            mo.pop()
        mo.check_lookups(universe)
    return mo


def _pq_exhaustive(PQ, domain, first, depth, counters, keys):
    """All sequences starting with `first` up to `depth` ops."""
    n = 0

    def nexts(model_items):
        out = []
        for it in ITEMS:
            for s in domain:
                if it in model_items:
                    out.append(("change", it, s))
                else:
                    out.append(("push", s, it))
            if it not in model_items:
                out.append(("change", it, domain[0]))  # an item that is not queued
            else:
                out.append(("push", domain[-1], it))  # an item that is still queued
        out.append(("pop",))
        return out

    def rec(prefix):
        nonlocal n
        mo = _pq_replay(PQ, prefix, ITEMS, counters)
        n += 1
        if _interesting(prefix):
            keys.add(hashlib.sha1(repr(prefix).encode()).hexdigest()[:16])
        if len(prefix) >= depth:
            return
        for op in nexts(set(mo.m)):
            rec(prefix + [op])

    rec([first])
    return n


def _interesting(ops):
    changed = False
    size = 0
    for op in ops:
        if op[0] == "push":
            size += 1
        elif op[0] == "change":
            changed = True
        elif op[0] == "pop":
            if changed and size >= 2:
                return True
            size = max(0, size - 1)
    return False


def _pq_random(PQ, rng, counters):
    nitems = rng.randint(2, 12)
    kind = rng.choice(["scalar", "scalar_small", "tuple2", "mixed", "neg", "wide"])

    def score():
        if kind == "wide":
            # the whole range of a C int, components further apart than 2^31
            w = lambda: rng.choice([-2_000_000_000, 2_000_000_000, -(2**31) + 1, 2**31 - 1, 0, 1, -1, rng.randint(-(2**31) + 1, 2**31 - 1)])
            return w() if rng.random() < 0.5 else (w(), w())
        if kind == "scalar":
            return rng.randint(0, 1000)
        if kind == "scalar_small":
            return rng.randint(0, 3)
        if kind == "tuple2":
            return (rng.randint(0, 2), rng.randint(0, 2))
        if kind == "neg":
            return rng.choice([rng.randint(-5, 5), (rng.randint(-2, 2), rng.randint(-2, 2))])
        return tuple(rng.randint(0, 2) for _ in range(rng.randint(1, 3)))

    universe = list(range(nitems)) if rng.random() < 0.7 else rng.sample(range(-50, 10**6), nitems)
    mo = PQModel(PQ, counters)
    order = []  # insertion order known to the model (approximates heap position classes)
    L = rng.randint(5, 300)
    ops = []
    for _ in range(L):
        r = rng.random()
        free = [i for i in universe if i not in mo.m]
        if r > 0.97 and mo.m:
            it = rng.choice(list(mo.m))
            s = score()
            mo.push(s, it)  # an item that is still queued
            ops.append(("push", s, it))
            mo.check_lookups(universe)
            continue
        if (r < 0.4 and free) or not mo.m:
            if not free:
                mo.pop()
                ops.append(("pop",))
            else:
                it = rng.choice(free)
                s = score()
                mo.push(s, it)
                order.append(it)
                ops.append(("push", s, it))
        elif r < 0.75 and free and rng.random() < 0.06:
            it = rng.choice(free)  # change the score of an item that is not queued
            s = score()
            mo.change(it, s)
            ops.append(("change", it, s))
            mo.check_lookups(universe)
        elif r < 0.75:
            queued = [i for i in order if i in mo.m]
            pick = rng.random()
            if pick < 0.3:
                it = max(queued, key=lambda i: _tup(mo.m[i]))  # current root candidate
            elif pick < 0.6:
                it = queued[-1]  # most recently inserted: leaf region
            else:
                it = rng.choice(queued)
            s = score()
            if rng.random() < 0.3:
                s = mo.m[it]  # equal score
            mo.change(it, s)
            ops.append(("change", it, s))
        else:
            mo.pop()
            ops.append(("pop",))
        if rng.random() < 0.5:
            mo.check_lookups(universe)
    mo.check_lookups(universe)
    while mo.m:
        mo.pop()
        ops.append(("pop",))
    mo.check_lookups(universe)
    return ops


# ---------------------------------------------------------------- ComponentFinder


def _bfs_min(values, edges):
    adj = {v: set() for v in values}
    for x, y in edges:
        adj[x].add(y)
        adj[y].add(x)
    rep = {}
    for v in values:
        if v in rep:
            continue
        comp = [v]
        seen = {v}
        i = 0
        while i < len(comp):
            for w in adj[comp[i]]:
                if w not in seen:
                    seen.add(w)
                    comp.append(w)
            i += 1
        m = min(comp)
        for w in comp:
            rep[w] = m
    return rep


_CF = None
_INV = {"n": 0}


def _forest_ok(self):
    _INV["n"] += 1
    for node in self.nodes.values():
        if node.parent is not None and not (node.parent.value < node.value):
            return False
    return True


class InvariantBroken(Exception):
    pass


def _get_cf():
    global _CF
    if _CF is None:
        import icontract
        from whatshap import graph

        _CF = icontract.invariant(_forest_ok, error=InvariantBroken)(graph.ComponentFinder)
    return _CF


def _cf_replay(values, merges, counters):
    CF = _get_cf()
    before = _INV["n"]
    cf = CF(values)
    edges = []
    for x, y in merges:
        try:
            cf.merge(x, y)
        except InvariantBroken:
            raise Viol("forest invariant parent.value < value broken after merge(%r,%r) in %r" % (x, y, merges))
        edges.append((x, y))
        rep = _bfs_min(values, edges)
        for v in values:
            try:
                got = cf.find(v)
            except InvariantBroken:
                raise Viol("forest invariant broken after find(%r) in %r" % (v, merges))
            if got != rep[v]:
                raise Viol("find(%r)=%r, minimum of its component is %r after merges %r" % (v, got, rep[v], edges))
        # second round: path compression performed by the finds above must not change answers
        for v in reversed(values):
            if cf.find(v) != rep[v]:
                raise Viol("find(%r) changed after path compression; merges %r" % (v, edges))
        counters["cf_finds_checked"] = counters.get("cf_finds_checked", 0) + 2 * len(values)
    counters["cf_invariant_evals"] = counters.get("cf_invariant_evals", 0) + (_INV["n"] - before)
    counters["cf_merges"] = counters.get("cf_merges", 0) + len(merges)


def _cf_long(rng, counters):
    """Long merge histories without intermediate finds (deep, uncompressed parent chains), checked at the end only: every element's
    representative must be the minimum of its component (own union-find with explicit minimum)."""
    from whatshap.graph import ComponentFinder

    n = rng.randint(1100, 3000)
    shape = rng.choice(["descending", "descending", "ascending", "random", "blocks"])
    if shape == "descending":
        merges = [(k, k + 1) for k in range(n - 2, -1, -1)]
    elif shape == "ascending":
        merges = [(k, k + 1) for k in range(n - 1)]
    elif shape == "blocks":
        merges = [(k, k + 1) for k in range(n - 2, -1, -1) if k % 97 != 0]
    else:
        merges = [tuple(rng.sample(range(n), 2)) for _ in range(n)]
    if rng.random() < 0.5:
        merges = [(b, a) for a, b in merges]
    cf = ComponentFinder(range(n))
    parent = list(range(n))

    def root(x):
        while parent[x] != x:
            parent[x] = parent[parent[x]]
            x = parent[x]
        return x

    for a, b in merges:
        cf.merge(a, b)
        ra, rb = root(a), root(b)
        if ra != rb:
            parent[max(ra, rb)] = min(ra, rb)  # the root of a component is its minimum
    for v in ([n - 1, 0] + rng.sample(range(n), 200)):
        got = cf.find(v)
        if got != root(v):
            raise Viol("after %d %s merges over %d elements (no find in between): find(%r)=%r, minimum of its component is %r" % (len(merges), shape, n, v, got, root(v)))
    counters["cf_long_histories"] = counters.get("cf_long_histories", 0) + 1
    counters["cf_long_merges"] = counters.get("cf_long_merges", 0) + len(merges)


def _cf_interesting(values, merges):
    rep = {v: {v} for v in values}
    for x, y in merges:
        a, b = rep[x], rep[y]
        if a is b:
            continue
        if len(a) >= 2 and len(b) >= 2:
            return True
        u = a | b
        for v in u:
            rep[v] = u
    return False


def run_case(idx, rng, tier, lane):
    from whatshap.priorityqueue import PriorityQueue

    counters = {}
    keys = set()
    viol = []
    sample = None
    depth = 5 if tier == "quick" else 6
    if lane == "san":
        depth = 4 if tier == "quick" else 5
    n_ex = 4 * 9
    n_cfex = 20
    # layout: [pq exhaustive 36][pq random R][cf exhaustive 20][cf random rest]
    if tier == "quick":
        n_rand = 60 if lane == "plain" else 20
    else:
        n_rand = 1200 if lane == "plain" else 300
    try:
        if idx < n_ex:
            dom = SCORE_DOMAINS[idx // 9]
            k = idx % 9
            first = ("push", dom[k % 3], ITEMS[k // 3])
            n = _pq_exhaustive(PriorityQueue, dom, first, depth, counters, keys)
            counters["pq_exhaustive_sequences"] = n
            sample = {"kind": "pq-exhaustive", "domain": dom, "first": first, "depth": depth, "sequences": n}
        elif idx < n_ex + n_rand:
            # every insertion order of 6 (quick) / 7 (thorough) distinct scores, a slice per case: push all, optionally
            # lower the current maximum below everything or raise the minimum above everything, then pop all
            nperm = 6 if tier == "quick" else 7
            perms = itertools.permutations(range(nperm))
            j = idx - n_ex
            for pi, perm in enumerate(perms):
                if pi % n_rand != j:
                    continue
                for variant in (0, 1, 2):
                    mo = PQModel(PriorityQueue, counters)
                    for item, sc in enumerate(perm):
                        mo.push(sc * 10, item)
                    if variant == 1:
                        mo.change(perm.index(nperm - 1), -5)
                    elif variant == 2:
                        mo.change(perm.index(0), 1000)
                    mo.check_lookups(range(nperm))
                    while mo.m:
                        mo.pop()
                    counters["pq_permutation_histories"] = counters.get("pq_permutation_histories", 0) + 1
            for rep in range(40 if tier == "quick" else 60):
                ops = _pq_random(PriorityQueue, rng, counters)
                counters["pq_random_histories"] = counters.get("pq_random_histories", 0) + 1
                if _interesting(ops):
                    keys.add(hashlib.sha1(repr(ops).encode()).hexdigest()[:16])
            sample = {"kind": "pq-random", "last_history_prefix": ops[:12], "length": len(ops)}
        elif idx < n_ex + n_rand + n_cfex:
            j = idx - n_ex - n_rand
            values = [0, 1, 2, 3, 4]
            pairs = [(x, y) for x in values for y in values if x != y]
            first = pairs[j]
            L = 3 if tier == "quick" else 4
            if lane == "san":
                L = 3
            nseq = 0
            for l in range(0, L):
                for rest in itertools.product(pairs, repeat=l):
                    merges = [first] + list(rest)
                    _cf_replay(values, merges, counters)
                    nseq += 1
                    if _cf_interesting(values, merges):
                        keys.add(hashlib.sha1(repr(merges).encode()).hexdigest()[:16])
            if tier == "thorough" and lane == "plain":
                up = [(x, y) for x in values for y in values if x < y]
                # all unordered length-5 sequences whose first pair is this one (either orientation)
                if first[0] < first[1]:
                    for rest in itertools.product(up, repeat=4):
                        merges = [first] + [p if (i % 2 == 0) else (p[1], p[0]) for i, p in enumerate(rest)]
                        _cf_replay(values, merges, counters)
                        nseq += 1
            counters["cf_exhaustive_sequences"] = nseq
            sample = {"kind": "cf-exhaustive", "first": first, "max_len": L, "sequences": nseq}
        else:
            for rep in range(30):
                nv = rng.randint(2, 30)
                if rng.random() < 0.5:
                    values = rng.sample(range(0, 1000), nv)
                else:
                    values = ["s%03d" % v for v in rng.sample(range(0, 1000), nv)]
                merges = []
                for _ in range(rng.randint(1, 2 * nv)):
                    x, y = rng.sample(values, 2)
                    merges.append((x, y))
                _cf_replay(values, merges, counters)
                counters["cf_random_histories"] = counters.get("cf_random_histories", 0) + 1
                if rep % 10 == 0:
                    try:
                        _cf_long(rng, counters)
                    except RecursionError as e:
                        raise Viol("long merge history: %s: %s" % (type(e).__name__, e))
                if _cf_interesting(values, merges):
                    keys.add(hashlib.sha1(repr(merges).encode()).hexdigest()[:16])
            sample = {"kind": "cf-random", "values": values[:8], "merges": merges[:8]}
    except Viol as e:
        kind = "pq" if (idx < n_ex + n_rand) else "cf"
        viol.append({"mech": "%s-model-mismatch" % kind, "msg": str(e)[:3000]})
    return {
        "nontrivial": bool(keys),
        "key": sorted(keys)[:2000],
        "violations": viol,
        "counters": counters,
        "sample": sample,
        "case": sample,
    }
