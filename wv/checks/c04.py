"""C04 — the phased VCF is the input VCF plus phase information and nothing else."""
import hashlib
import json
import os
import shutil
import tempfile

from wv import launch, pipeline
from wv.gen import genome
from wv.gen import vcf as gvcf
from wv.oracle import vcfdiff

ID = "C04"
LEVEL = "exploration"
RULE = (
    "G-genome data (1-3 contigs, 1-3 read-backed samples + optional extra VCF-only samples) whose input VCF is made hostile: INFO/"
    "FORMAT fields of several Number/Type, ID/QUAL/FILTER variety, inserted multi-ALT / symbolic / no-ALT records and duplicate "
    "positions, missing and partial genotypes, unsorted unphased GT (1/0), pre-existing PS or HP phasing (+PQ), ##phasing line; plain "
    "or bgzip input; every --sample/--chromosome selection, both tags, --only-snvs, --distrust-genotypes, --ped. Oracle O-vcfdiff "
    "(pysam/htslib only): records paired by order; CHROM, POS, ID, REF, ALT, QUAL, FILTER, INFO and every FORMAT key except GT/PS/HP "
    "equal on parsed values; calls of non-selected samples/chromosomes identical incl. phase flag and PS/HP; GT allele multiset of "
    "target calls preserved unless genotypes are distrusted; a call newly marked phased must be heterozygous, biallelic (and an SNV "
    "with --only-snvs); all header definitions kept; the written tag defined. Non-trivial: input has >=1 record the writer must skip "
    "and >=1 FORMAT/INFO field beyond GT, and >=1 call gets phased; distinct by hash of input text + options."
)
REQUIRED_COUNTERS = ["runs_ok", "records_compared", "calls_compared", "phased_calls_judged"]
ASSUMPTIONS = ["a file htslib itself cannot copy record by record is skipped and counted"]
WATCHDOG = {"quick": 300, "thorough": 900}


def lanes(tier):
    return [("plain", "plain", 240 if tier == "quick" else 4000)]


def gen_params(rng):
    nread = rng.choice([1, 1, 2, 3])
    ped = []
    if rng.random() < 0.25:
        samples, ped = ["dad", "mom", "kid"], [("dad", "mom", "kid")]
    else:
        samples = ["sample%s" % c for c in "ABC"[:nread]]
        rng.shuffle(samples)
    extra = ["ghost1", "ghost2"][: rng.choice([0, 0, 1, 2])]
    p = {
        "n_chrom": rng.choice([1, 2, 3]),
        "chrom_len": 2500,
        "n_var": rng.randint(3, 15),
        "pos1_prob": 0.15,
        "kinds": ["snv", "snv", "snv", "ins", "del", "mnp"],
        "samples": samples,
        "pedigree": ped,
        "extra_vcf_samples": extra,
        "depth": rng.choice([3, 8, 20]),
        "read_len": (150, 700),
        "paired": rng.choice([0.0, 0.5]),
        "end_policy": "clean",
        "error_rate": rng.choice([0.0, 0.01]),
        "het_prob": 0.7,
        "vcf_compress": rng.random() < 0.3,
        "with_pl": rng.random() < 0.3,
        "unsorted_gt": rng.choice([0.0, 0.3]),
    }
    if rng.random() < 0.3:
        # contig names that contain one another (chr1 / chr11 / chr111; 1 / 21 / 2)
        p["chrom_names"] = rng.choice([["chr11", "chr1", "chr111"], ["chr1", "chr11", "chr111"], ["21", "1", "2"]])
    names = (p.get("chrom_names") or ["chr%d" % (i + 1) for i in range(3)])[: p["n_chrom"]]
    if p["with_pl"]:
        # VCF genotypes that disagree with the reads, so that --distrust-genotypes really changes calls (het->hom, hom->het)
        p["gt_noise"] = rng.choice([(0.0, 0.0), (0.25, 0.0)])
        p["depth"] = rng.choice([8, 20])
    opts = {"reference": "FASTA", "tag": rng.choice(["PS", "HP"]), "only_snvs": rng.random() < 0.25, "prephase": rng.choice([None, None, "PS", "HP"])}
    if rng.random() < 0.4 and not ped:
        opts["samples"] = rng.sample(samples, rng.randint(1, len(samples)))
        if rng.random() < 0.3:
            # --ignore-read-groups: every read counts for each of the requested samples
            opts["ignore_read_groups"] = True
    if rng.random() < 0.4 and p["n_chrom"] > 1:
        opts["chromosomes"] = rng.sample(names, rng.randint(1, p["n_chrom"] - 1))
    if p["with_pl"] and rng.random() < 0.6:
        opts["distrust_genotypes"] = True
    if ped:
        opts["ped"] = True
    return p, opts


def run_one(rng, counters):
    tmp = tempfile.mkdtemp(prefix="c04-", dir=os.environ.get("WV_SCRATCH"))
    try:
        p, opts = gen_params(rng)
        sim = genome.simulate(rng, tmp, p)
        # prephase with tag X and running with the other tag mixes encodings, which whatshap's own reader refuses only when
        # reading phases; the writer path is what is judged here
        gvcf.hostilize(rng, sim.doc, prephase=opts["prephase"], allow_missing=not opts.get("ped"))
        if p["n_chrom"] >= 2 and rng.random() < 0.25:
            # a contig on which no record is usable (only multi-ALT / ALT-less records; or only indels with --only-snvs)
            which = rng.choice(sim.chroms[1:] if rng.random() < 0.7 else sim.chroms)
            for r in sim.doc.records:
                if r["chrom"] != which:
                    continue
                if opts["only_snvs"] and rng.random() < 0.5:
                    r["ref"], r["alts"], r["kind"] = r["ref"][0] + "ACG", [r["ref"][0]], "del"
                elif rng.random() < 0.5:
                    r["alts"], r["kind"] = [], "noalt"
                else:
                    r["alts"], r["kind"] = [x for x in "ACGT" if x != r["ref"][0]][:2], "multi"
                    r["ref"] = r["ref"][0]
                for call in r["calls"]:
                    if r["kind"] == "noalt":
                        call["GT"] = "0/0"
            opts["unusable_contig"] = which
        unselected = [s_ for s_ in sim.doc.samples if opts.get("samples") and s_ not in opts["samples"]]
        if unselected and rng.random() < 0.3:
            # haploid calls (a male sample on chrX) of a sample that was not selected: they only have to be copied
            u = sim.doc.samples.index(rng.choice(unselected))
            which = rng.choice(sim.chroms)
            for r in sim.doc.records:
                if r["chrom"] == which and rng.random() < 0.5:
                    r["calls"][u]["GT"] = rng.choice(["0", "1", "."])
                    for k_ in ("PS", "HP", "PQ", "PL"):
                        if k_ in r["calls"][u]:
                            r["calls"][u][k_] = "."
            opts["haploid_calls_of_unselected_sample"] = True
        sim.doc.write(sim.vcf, compress=bool(p["vcf_compress"]))
        desc = {"params": p, "options": opts, "vcf": sim.doc.text() if len(sim.doc.records) < 60 else "(%d records)" % len(sim.doc.records)}
        if not vcfdiff.htslib_roundtrips(sim.vcf, os.path.join(tmp, "rt.vcf")):
            counters["skipped_htslib_cannot_copy"] = counters.get("skipped_htslib_cannot_copy", 0) + 1
            return [], False, desc
        ro = {k: v for k, v in opts.items() if k not in ("ped", "prephase", "unusable_contig", "haploid_calls_of_unselected_sample")}
        ro["reference"] = sim.fasta
        if opts.get("ped"):
            ro["ped"] = sim.ped
        out = os.path.join(tmp, "out.vcf")
        if rng.random() < 0.2:
            ro["via_cli"] = opts["via_cli"] = True  # through whatshap's argument parser, validate() and main()
            counters["runs_via_command_line"] = counters.get("runs_via_command_line", 0) + 1
        status, trace, msg = pipeline.run_phase(sim, out, **ro)
        if status == "cle":
            counters["refused_" + msg.split(" ")[0][:20]] = counters.get("refused_" + msg.split(" ")[0][:20], 0) + 1
            if "No reads could be retrieved" in msg or "Mixed phasing" in msg or "Mendelian" in msg:
                return [], False, desc
            if "ploidy" in msg.lower() and opts.get("haploid_calls_of_unselected_sample"):
                return [{"mech": "refused:haploid-call-of-unselected-sample", "msg": "the selected samples %r are diploid everywhere, an unselected sample has haploid calls: %s" % (opts["samples"], msg[:300])}], False, desc
            return [{"mech": "refused:" + msg[:40], "msg": msg}], False, desc
        if status != "ok":
            return [pipeline.crash_violation(msg)], False, desc
        counters["runs_ok"] = counters.get("runs_ok", 0) + 1
        if opts.get("haploid_calls_of_unselected_sample"):
            counters["runs_with_haploid_calls_of_unselected_sample"] = counters.get("runs_with_haploid_calls_of_unselected_sample", 0) + 1
        targets = opts.get("samples") or [s for s in p["samples"]] + list(p["extra_vcf_samples"])
        if opts.get("ped"):
            targets = list(p["samples"]) + list(p["extra_vcf_samples"])
        before = counters.get("phased_calls_judged", 0)
        viol = pipeline.judge_passthrough(sim.vcf, out, sim.doc, set(targets), set(opts.get("chromosomes") or []), opts["tag"],
                                          opts["only_snvs"], bool(opts.get("distrust_genotypes")), counters)
        skipped = any(r["kind"] in ("multi", "symbolic", "noalt", "dup", "multidup", "indeldup") for r in sim.doc.records)
        nt = skipped and counters.get("phased_calls_judged", 0) > before
        return viol, nt, desc
    finally:
        shutil.rmtree(tmp, ignore_errors=True)


def run_case(idx, rng, tier, lane):
    counters = {}
    keys = set()
    viol = []
    sample = None
    for j in range(6):
        v, nt, desc = run_one(rng, counters)
        for x in v:
            x["data"] = desc
        viol += v
        if nt:
            keys.add(hashlib.sha1(json.dumps(desc, sort_keys=True, default=str).encode()).hexdigest()[:16])
        sample = {"options": desc["options"], "samples": desc["params"]["samples"], "extra": desc["params"]["extra_vcf_samples"],
                  "vcf_tail": desc["vcf"].splitlines()[-2:] if desc["vcf"].startswith("##") else desc["vcf"]}
    seen = set()
    uniq = [x for x in viol if not (x["mech"] in seen or seen.add(x["mech"]))]
    return {"nontrivial": bool(keys), "key": sorted(keys), "violations": uniq, "counters": counters, "sample": sample, "case": None}
