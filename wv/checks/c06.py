"""C06 — allele detection never assigns the wrong allele to an error-free read (ReadSetReader.read)."""
import hashlib
import json
import os
import shutil
import tempfile
import traceback

from wv.gen import genome

ID = "C06"
LEVEL = "exploration"
RULE = (
    "One-contig G-genome data (homopolymers, tandem repeats; SNV / insertion / deletion / MNP variants, left-normalised, with "
    "their shift range; 0-30% of the haplotype's variants hidden from the VCF = unrelated indels/SNVs, plus unrelated indels of "
    "1-6 bases placed 1-7 bases next to SNVs), reads = exact haplotype "
    "copies decorated by G-cigar: soft and hard clips, =/X instead of M, N skips over variants, unrelated I/D, read ends anywhere "
    "a valid CIGAR allows (variants at the first/last aligned base, ends inside MNPs), variants a few bases from the contig ends "
    "(window truncated), single reads / overlapping or disjoint mates, the sample's reads spread over 1-3 BAM files whose read "
    "names recur, a tenth of the VCFs with REF/ALT in lower case; lane 'mav': multi-allelic SNV records (2-3 ALT alleles, '*' "
    "listed among them anywhere, ploidy 2-4, VcfReader(mav=True)) where the recorded allele index must be the index of the carried "
    "base in the record's own ALT order; run through whatshap.variants.ReadSetReader.read(chromosome, "
    "variants, sample, reference) with the reference (re-alignment) and with reference=None (CIGAR based; then only SNVs and "
    "unshiftable indels are generated). Oracle O-alleles by construction: per (fragment, variant): 'fully covered' = some aligned "
    "block contains the footprint extended by its shift range plus one base on each side -> recorded allele must be the "
    "haplotype's (with reference: must be present unless another alignment of the fragment covers it only partially; without: "
    "absent is allowed); 'not overlapping' = all aligned blocks disjoint from [pos, pos+len(REF)) -> no allele recorded; anything "
    "else = partial, counted, not judged. Non-trivial: a judged pair whose alignment is not plain M or whose variant is not an SNV; "
    "distinct by (cigar class, variant kind, offset class)."
)
REQUIRED_COUNTERS = ["reader_calls", "pairs_fully_covered", "pairs_not_overlapping", "pairs_correct"]
ASSUMPTIONS = [
    "hidden (unrelated) variants drawn from the variant generator keep >= 30 bp separation from VCF variants; the close unrelated indels are placed next to SNVs only",
    "next to a close unrelated indel a missing allele is tolerated also with a reference (the re-alignment may tie); a wrong allele never is",
    "without a reference only SNVs and unshiftable indels are generated (the statement's restriction)",
]
WATCHDOG = {"quick": 300, "thorough": 900}


def lanes(tier):
    if tier == "quick":
        return [("plain", "plain", 240), ("mav", "plain", 48), ("san", "san", 48)]
    return [("plain", "plain", 16000), ("mav", "plain", 3000), ("san", "san", 2000), ("vg-san", "vg", 16)]


def blocks_of(start, cig, lead_ins=True):
    """Aligned blocks (reference intervals) of an alignment: maximal runs of M/=/X/I/D; N and clips separate/are excluded.
    lead_ins: a block that begins with inserted bases is extended over the preceding base (it overlaps that anchor, but does
    not contain it: such a block does not 'fully cover' a variant located there)."""
    out = []
    pos = start
    cur = None
    for op, l in cig:
        if op in (0, 7, 8, 2):
            if cur is None:
                cur = [pos, pos]
            pos += l
            cur[1] = pos
        elif op == 1:
            if cur is None:
                # an alignment (part) beginning with inserted bases carries the insertion behind the preceding base
                cur = [pos - 1, pos] if lead_ins else [pos, pos]
        elif op == 3:
            if cur is not None:
                out.append(tuple(cur))
                cur = None
            pos += l
    if cur is not None:
        out.append(tuple(cur))
    return out


def _edge_insertion(pt, v):
    core = [(op, l) for op, l in pt["cigar"] if op not in (4, 5)]
    if not core:
        return False
    end = pt["start"] + sum(l for op, l in core if op in (0, 2, 3, 7, 8))
    if core[-1][0] == 1 and end == v.pos + 1 and core[-1][1] == len(v.alt) - 1:
        return "trailing"
    if core[0][0] == 1 and pt["start"] == v.pos + 1 and core[0][1] == len(v.alt) - 1:
        return "leading"
    return False


def _site_deleted(pt, v):
    """True iff the whole footprint [v.pos, v.end) of the variant lies inside one D operation of this alignment."""
    pos = pt["start"]
    for op, l in pt["cigar"]:
        if op == 2 and pos <= v.pos and v.end <= pos + l:
            return True
        if op in (0, 2, 3, 7, 8):
            pos += l
    return False


def cigar_class(cig):
    ops = {op for op, l in cig}
    name = ""
    for op, ch in ((4, "S"), (5, "H"), (7, "="), (1, "I"), (2, "D"), (3, "N")):
        if op in ops:
            name += ch
    return name or "M"


def run_one(rng, counters):
    from whatshap.core import NumericSampleIds
    from whatshap.variants import ReadSetReader
    from whatshap.vcf import VcfReader

    tmp = tempfile.mkdtemp(prefix="c06-", dir=os.environ.get("WV_SCRATCH"))
    try:
        use_ref = rng.random() < 0.65
        kinds = rng.choice([["snv"], ["snv", "ins", "del", "mnp"], ["ins", "del"], ["mnp", "snv"], ["snv", "ins", "del"]]) if use_ref else rng.choice([["snv"], ["snv", "ins", "del"], ["ins", "del"]])
        p = {
            "n_chrom": 1,
            "chrom_len": rng.choice([600, 1500, 3000]),
            "n_var": rng.randint(3, 25),
            "kinds": kinds,
            "samples": ["sampleA"],
            "depth": rng.choice([3, 8, 15]),
            "read_len": rng.choice([(40, 120), (80, 300), (200, 800)]),
            "paired": rng.choice([0.0, 0.5, 1.0]),
            "end_policy": "free",
            "allow_shiftable": use_ref,
            "het_prob": 0.8,
            "decorate": rng.choice([0.0, 0.5, 1.0]),
            "nskip": rng.choice([0.0, 0.3]),
            "hidden_frac": rng.choice([0.0, 0.0, 0.3]),
            "margin": rng.choice([3, 12, 40]),
            "edge_frac": rng.choice([0.0, 0.3, 0.6]),
            "edge_ins": rng.choice([0.0, 0.5]),
            "qual_mode": rng.choice(["const", "random"]),
            "companions": rng.choice([0.0, 0.0, 0.4, 0.8]),
            # with a reference two neighbouring indels have no unique representation; CIGAR-based detection has no such excuse
            "companion_kinds": (("snv",) if rng.random() < 0.7 else ("snv", "ins", "del", "mnp")) if use_ref else ("snv", "ins", "del"),
            "companion_max_len": rng.choice([6, 6, 13]),
            "covering_deletions": rng.choice([0.0, 0.0, 0.3]),
            # the sample's reads come from several files (sequencing runs) that each number their reads from 0
            "split_bams": rng.choice([0, 0, 0, 2, 3]),
        }
        sim = genome.simulate(rng, tmp, p)
        desc = {"params": p, "use_ref": use_ref}
        c = "chr1"
        if rng.random() < 0.12:
            # REF/ALT written in lower case (VCF bases are case-insensitive; soft-masked references produce such records)
            every = rng.random() < 0.5
            for r in sim.doc.records:
                if every or rng.random() < 0.5:
                    r["ref"] = r["ref"].lower()
                    r["alts"] = [a.lower() for a in r["alts"]]
            sim.doc.write(sim.vcf)
            desc["lower_case_alleles"] = True
            counters["reader_calls_lower_case_vcf"] = counters.get("reader_calls_lower_case_vcf", 0) + 1
        rd = VcfReader(sim.vcf)
        tables = list(rd)
        rd.close()
        if not tables:
            return [], set(), desc
        variants = tables[0].variants
        nsi = NumericSampleIds()
        if not sim.reads:
            return [], set(), desc
        reader = ReadSetReader(list(sim.bams), None, nsi)
        try:
            rs = reader.read(c, variants, "sampleA", sim.ref[c] if use_ref else None)
        except Exception:
            tb = traceback.format_exc()
            return [{"mech": "crash:" + tb.strip().splitlines()[-1].split(":")[0], "msg": "ReadSetReader.read raised: " + tb[-1500:]}], set(), desc
        counters["reader_calls"] = counters.get("reader_calls", 0) + 1
        got = {}
        for r in rs:
            got[(r.source_id, r.name)] = {v.position: (v.allele, v.quality) for v in r}
        if len(sim.bams) > 1:
            counters["reader_calls_with_several_files"] = counters.get("reader_calls_with_several_files", 0) + 1
        frags = {}
        for r in sim.reads:
            frags.setdefault(r["name"], []).append(r)
        vis = [(i, v) for i, v in enumerate(sim.variants[c]) if i not in sim.hidden[c]]
        allv = sim.variants[c]
        # visible variants with an unrelated hidden indel within 16 bases: re-alignment may legitimately tie there
        # (window = footprint extended by the shift range and the 10 bp overhang; two spare bases)
        crowded = {i for i, v in vis if any(w.hid and w.end + w.shift >= v.pos - 12 and w.pos <= v.end + v.shift + 12 for w in allv[max(0, i - 2) : i + 3])}
        viol = []
        keys = set()
        for name, parts in frags.items():
            h = parts[0]["hap"]
            allblocks = [(pt, b) for pt in parts for b in blocks_of(pt["start"], pt["cigar"])]
            strict = [b for pt in parts for b in blocks_of(pt["start"], pt["cigar"], lead_ins=False)]
            rec = got.get((sim.bam_of.get(name, 0), sim.bam_names.get(name, name)), {})
            for i, v in vis:
                truth = sim.haps[c]["sampleA"][h][i]
                npos = v.pos  # reads are keyed by the VCF position of the variant
                lo_full = v.pos  # the footprint starts at the VCF position (anchor base for indels): a read may begin exactly there
                hi_full = v.end + v.shift + 1
                full = any(b[0] <= lo_full and b[1] >= hi_full for b in strict)
                overlap = [b for _, b in allblocks if b[0] < v.end + v.shift and b[1] > v.pos]
                # "does not overlap": every aligned block is disjoint from the VCF footprint [pos, pos+len(REF));
                # blocks that reach into the footprint or its shift range without covering it fully are "partial"
                touching = [b for _, b in allblocks if b[0] < v.end + v.shift and b[1] > v.pos]
                partial = any(not (b[0] <= lo_full and b[1] >= hi_full) for b in touching)
                r_ = rec.get(npos)
                cls = "%s/%s" % (cigar_class(parts[0]["cigar"]), v.kind)
                gone = [_site_deleted(pt, v) for pt in parts if any(b[0] < v.end and b[1] > v.pos for b in blocks_of(pt["start"], pt["cigar"]))]
                if gone and any(gone):
                    # the variant's site lies inside a deletion of the alignment: the read has no base of it
                    if all(gone):
                        counters["pairs_site_deleted"] = counters.get("pairs_site_deleted", 0) + 1
                        if r_ is not None:
                            viol.append({"mech": "spurious-allele:" + v.kind + ":site-deleted-in-read" + (":noref" if not use_ref else ""),
                                         "msg": "fragment %s (alignments %r) has a deletion over the site of %s %r but allele %r was recorded" % (name, [(pt["start"], pt["cigar"]) for pt in parts], v.kind, v.as_list(), r_)})
                    continue
                if not touching:
                    counters["pairs_not_overlapping"] = counters.get("pairs_not_overlapping", 0) + 1
                    if r_ is not None:
                        viol.append({"mech": "spurious-allele:" + v.kind + (":noref" if not use_ref else ""),
                                     "msg": "fragment %s (alignments %r) does not overlap %s %r but allele %r was recorded" % (name, [(pt["start"], pt["cigar"]) for pt in parts], v.kind, v.as_list(), r_)})
                elif full:
                    counters["pairs_fully_covered"] = counters.get("pairs_fully_covered", 0) + 1
                    if r_ is None:
                        counters["pairs_none"] = counters.get("pairs_none", 0) + 1
                        if i in crowded:
                            counters["pairs_none_next_to_unrelated_indel"] = counters.get("pairs_none_next_to_unrelated_indel", 0) + 1
                        elif use_ref and not partial:
                            viol.append({"mech": "missing-allele:" + v.kind, "msg": "fragment %s (alignments %r) fully covers %s %r (truth allele %d) but no allele was recorded (with reference)" % (name, [(pt["start"], pt["cigar"]) for pt in parts], v.kind, v.as_list(), truth)})
                    elif r_[0] != truth:
                        # with a reference, an unrelated indel inside the re-alignment window of an indel/MNP variant can make the other
                        # allele the closer one in edit distance (a limit of the method, recorded as a known finding)
                        crowd = ":unrelated-indel-in-realignment-window" if (use_ref and i in crowded and v.kind != "snv") else ""
                        viol.append({"mech": ("wrong-allele:" + v.kind + crowd) if crowd else "wrong-allele:" + v.kind + (":noref" if not use_ref else "") + (":partial-mate" if partial else ""),
                                     "msg": "fragment %s (alignments %r) is an exact copy of haplotype %d and fully covers %s %r: recorded allele %r, truth %d" % (name, [(pt["start"], pt["cigar"]) for pt in parts], h, v.kind, v.as_list(), r_, truth)})
                    else:
                        counters["pairs_correct"] = counters.get("pairs_correct", 0) + 1
                        if i in crowded:
                            counters["pairs_correct_next_to_unrelated_indel"] = counters.get("pairs_correct_next_to_unrelated_indel", 0) + 1
                    if cls.split("/")[0] != "M" or v.kind != "snv":
                        keys.add(cls + ("/ref" if use_ref else "/noref") + "/%d" % (min(9, v.pos - min(b[0] for b in touching))))
                elif v.kind == "ins" and truth == 1 and any(_edge_insertion(pt, v) for pt in parts):
                    # the alignment begins/ends with exactly the inserted bases: it carries the ALT allele completely
                    counters["pairs_edge_insertion"] = counters.get("pairs_edge_insertion", 0) + 1
                    trailing = any(_edge_insertion(pt, v) == "trailing" for pt in parts)
                    if r_ is None and use_ref and trailing and i not in crowded and len(parts) == 1 and v.shift == 0:
                        # (an insertion that can be shifted to the right is excluded: a read ending right behind its inserted bases
                        # reads the same with and without it - the reference continues with the very same bases)
                        # anchor and all inserted bases are in the alignment (it ends right behind them): with a reference
                        # the allele has to be found
                        viol.append({"mech": "missing-allele:ins:edge", "msg": "fragment %s (alignments %r) ends with the anchor and all inserted bases of %r but no allele was recorded (with reference)" % (
                            name, [(pt["start"], pt["cigar"]) for pt in parts], v.as_list())})
                    if r_ is not None and r_[0] == 0:
                        # next to an unrelated indel the window comparison is ambiguous here as well (same known finding as for
                        # fully covered indel variants)
                        viol.append({"mech": "wrong-allele:ins:unrelated-indel-in-realignment-window" if (use_ref and i in crowded) else "wrong-allele:ins:edge" + (":noref" if not use_ref else ""),
                                     "msg": "fragment %s (alignments %r) begins/ends with the inserted bases of %r but allele REF was recorded %r" % (name, [(pt["start"], pt["cigar"]) for pt in parts], v.as_list(), r_)})
                else:
                    counters["pairs_partial_not_judged"] = counters.get("pairs_partial_not_judged", 0) + 1
                    if r_ is not None and r_[0] != truth:
                        counters["pairs_partial_wrong"] = counters.get("pairs_partial_wrong", 0) + 1
        seen = set()
        viol = [x for x in viol if not (x["mech"] in seen or seen.add(x["mech"]))]
        return viol, keys, desc
    finally:
        shutil.rmtree(tmp, ignore_errors=True)


def run_mav(rng, counters):
    """Multi-allelic SNV records (as polyphase / haplotagphase read them, VcfReader(mav=True)): two or three ALT alleles, the
    spanning-deletion placeholder '*' listed among them at any place. Error-free ungapped reads of 2-4 haplotypes; the allele
    index recorded for a read covering the site must be the index (in the record's own ALT order) of the base it carries."""
    from whatshap.core import NumericSampleIds
    from whatshap.variants import ReadSetReader
    from whatshap.vcf import VcfReader

    tmp = tempfile.mkdtemp(prefix="c06m-", dir=os.environ.get("WV_SCRATCH"))
    try:
        P = rng.choice([2, 2, 3, 4])
        use_ref = rng.random() < 0.7
        p = {"ploidy": P, "n_chrom": 1, "chrom_len": rng.choice([800, 2000]), "n_var": rng.randint(4, 18), "samples": ["sampleA"], "depth": rng.choice([3, 6]),
             "read_len": rng.choice([(60, 200), (150, 500)]), "error_rate": 0.0, "multiallelic": rng.choice([0.5, 1.0]), "paired": rng.choice([0.0, 0.5]), "min_gap": 25}
        sim = genome.simulate_poly(rng, tmp, p)
        c = "chr1"
        # put '*' into some ALT lists; star[i] = index (0-based among ALTs) at which it was inserted
        star = {}
        for r, v in zip(sim.doc.records, sim.variants[c]):
            if rng.random() < 0.4:
                k = rng.randint(0, len(r["alts"]))
                star[v["pos"]] = k
                r["alts"] = r["alts"][:k] + ["*"] + r["alts"][k:]
                for call in r["calls"]:
                    sep = "|" if "|" in call["GT"] else "/"
                    call["GT"] = sep.join(x if x == "." or int(x) <= k else str(int(x) + 1) for x in call["GT"].split(sep))
        sim.doc.write(sim.vcf)
        desc = {"params": p, "use_ref": use_ref, "lane": "mav", "star_sites": len(star)}
        rd = VcfReader(sim.vcf, mav=True, ploidy=P)
        tables = list(rd)
        rd.close()
        if not tables or not sim.reads:
            return [], set(), desc
        variants = tables[0].variants
        listed = {v.position for v in variants}
        reader = ReadSetReader(list(sim.bams), None, NumericSampleIds())
        try:
            rs = reader.read(c, variants, "sampleA", sim.ref[c] if use_ref else None)
        except Exception:
            tb = traceback.format_exc()
            return [{"mech": "crash:" + tb.strip().splitlines()[-1].split(":")[0], "msg": "ReadSetReader.read (mav) raised: " + tb[-1500:]}], set(), desc
        counters["reader_calls"] = counters.get("reader_calls", 0) + 1
        counters["reader_calls_mav"] = counters.get("reader_calls_mav", 0) + 1
        got = {r.name: {v.position: v.allele for v in r} for r in rs}
        frags = {}
        for r in sim.reads:
            frags.setdefault(r["name"], []).append(r)
        viol, keys = [], set()
        for name, parts in frags.items():
            h = parts[0]["hap"]
            rec = got.get(name, {})
            for i, v in enumerate(sim.variants[c]):
                if v["pos"] not in listed:
                    continue
                al = sim.haps[c]["sampleA"][h][i]
                truth = al if (v["pos"] not in star or al <= star[v["pos"]]) else al + 1  # index in the record's own ALT order
                cover = [pt for pt in parts if pt["start"] <= v["pos"] < pt["start"] + len(pt["seq"])]
                inner = [pt for pt in cover if pt["start"] + 12 <= v["pos"] < pt["start"] + len(pt["seq"]) - 12]
                r_ = rec.get(v["pos"])
                if not cover:
                    counters["pairs_not_overlapping"] = counters.get("pairs_not_overlapping", 0) + 1
                    if r_ is not None:
                        viol.append({"mech": "spurious-allele:snv:mav", "msg": "fragment %s does not overlap %r but allele %r was recorded" % (name, v, r_)})
                    continue
                counters["pairs_fully_covered"] = counters.get("pairs_fully_covered", 0) + 1
                if r_ is None:
                    counters["pairs_none"] = counters.get("pairs_none", 0) + 1
                    if use_ref and inner and len(cover) == 1:
                        viol.append({"mech": "missing-allele:snv:mav", "msg": "fragment %s covers multi-allelic %r (ALT order in the record %r, truth index %d): no allele recorded (with reference)" % (name, v, sim.doc.records[i]["alts"], truth)})
                elif r_ != truth:
                    viol.append({"mech": "wrong-allele:snv:mav" + (":star-listed" if v["pos"] in star else "") + ("" if use_ref else ":noref"),
                                 "msg": "fragment %s is an exact copy of haplotype %d at %r (ALT order in the record %r): recorded allele index %r, truth %d" % (name, h, v, sim.doc.records[i]["alts"], r_, truth)})
                else:
                    counters["pairs_correct"] = counters.get("pairs_correct", 0) + 1
                    if truth >= 2 or v["pos"] in star:
                        keys.add("mav/%s/%d/%s" % ("ref" if use_ref else "noref", truth, "star" if v["pos"] in star else "plain"))
        seen = set()
        viol = [x for x in viol if not (x["mech"] in seen or seen.add(x["mech"]))]
        return viol, keys, desc
    finally:
        shutil.rmtree(tmp, ignore_errors=True)


def run_case(idx, rng, tier, lane):
    counters = {}
    keys = set()
    viol = []
    sample = None
    for j in range(6 if lane == "plain" else 4):
        v, ks, desc = run_mav(rng, counters) if lane == "mav" else run_one(rng, counters)
        for x in v:
            x["data"] = desc
        viol += v
        keys |= ks
        sample = desc
    seen = set()
    uniq = [x for x in viol if not (x["mech"] in seen or seen.add(x["mech"]))]
    return {"nontrivial": bool(keys), "key": sorted(keys), "violations": uniq, "counters": counters, "sample": sample, "case": None}
