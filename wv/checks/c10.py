"""C10 — haplotag conserves every alignment and tags it with the best-agreeing haplotype."""
import hashlib
import json
import os
import shutil
import tempfile
import traceback

from wv.gen import genome
from wv.oracle import vcftext

ID = "C10"
LEVEL = "exploration"
RULE = (
    "G-genome diploid data (1-2 samples/read groups, 1-2 contigs, SNV/indel variants, reads with 0-5% errors, single and "
    "paired) with a truth-phased VCF (PS or HP encoded, 1-3 phase sets per contig, bgzip+tabix) and a BAM enriched with "
    "secondary, supplementary, duplicate, low-MAPQ, placed and unplaced unmapped records, pre-existing HP/PS/PC tags and "
    "(stratum) BX-tagged clouds; options: one or several --regions (adjacent ones share reads; given in any order, contigs too, and overlapping), a contig "
    "whose only records are placed unmapped reads, read clouds of one barcode further apart than the linked-read cutoff, "
    "--tag-supplementary, --ignore-read-groups, --sample, --ignore-linked-read, --output-haplotag-list, BAM or CRAM output, "
    "with/without reference. Monitors: conservation differ (pysam records compared field by field as sequences with HP/PS/PC "
    "removed; with --regions exactly the records overlapping >=1 region, each once, in order); decision rule O-haplotag "
    "recomputed from the alleles the interposed PhasedInputReader.read returned and the own-decoded phased VCF (unique best "
    "haplotype in the top-scoring phase set, PC = best - second, ties and reads without phased het variants untagged); "
    "metamorphic rerun with the haplotypes of one phase set exchanged (HP 1<->2 exactly for the reads of that set); list file "
    "vs BAM tags. Non-trivial: a run with reads covering >=2 phased het variants incl. a disagreeing allele, and >=1 "
    "secondary/supplementary/unmapped record; distinct by hash of the run description."
)
REQUIRED_COUNTERS = ["runs_ok", "records_compared", "tag_decisions_checked", "swap_reruns", "list_lines_checked", "hook_reads_seen"]
ASSUMPTIONS = [
    "when the maxima of several phase sets tie, either set's decision is accepted",
    "for BX clouds (linked reads) the read-cloud rule is recomputed (cloud = unprocessed reads of one barcode in read-set order); clouds whose evidence ties between phase sets, and everything depending on them, are not judged",
]
WATCHDOG = {"quick": 300, "thorough": 900}

_CAP = {"reads": [], "installed": False, "hits": 0}


def lanes(tier):
    return [("plain", "plain", 480 if tier == "quick" else 10000)]


def _install():
    if _CAP["installed"]:
        return
    import whatshap.cli.haplotag as ht

    Real = ht.PhasedInputReader

    class Traced(Real):
        def read(self, chromosome, variants, sample, **kw):
            rs, ids = Real.read(self, chromosome, variants, sample, **kw)
            _CAP["hits"] += 1
            for r in rs:
                _CAP["reads"].append((chromosome, sample, r.name, [(v.position, v.allele, v.quality) for v in r], r.BX_tag if r.has_BX_tag() else None, r.reference_start))
            return rs, ids

    ht.PhasedInputReader = Traced
    _CAP["installed"] = True


def build_bam(rng, sim, tmp, opts):
    """Re-write sim's BAM with extra record kinds; returns path."""
    import pysam

    src = pysam.AlignmentFile(sim.bams[0])
    header = src.header.to_dict()
    hdr = pysam.AlignmentHeader.from_dict(header)
    recs = [pysam.AlignedSegment.fromstring(a.to_string(), hdr) for a in src]
    src.close()
    extra = []
    out_recs = []
    for a in recs:
        r = rng.random()
        if r < 0.08:
            a.set_tag("HP", rng.randint(1, 2))
            a.set_tag("PS", rng.randint(1, 5000))
            a.set_tag("PC", rng.randint(1, 200))
        elif r < 0.12:
            a.set_tag("PS", 999)
        if rng.random() < 0.5:
            # auxiliary fields of every BAM type (minimap2 writes tp:A / ts:A; H, B and f occur as well): the output must keep value
            # and type, which only a comparison of the SAM text sees
            a.set_tag("tp", rng.choice("PSI"), value_type="A")
            if rng.random() < 0.5:
                a.set_tag("XH", rng.choice(["1AE3", "00FF"]), value_type="H")
            if rng.random() < 0.5:
                a.set_tag("XF", rng.choice([0.5, 1.25]), value_type="f")
            if rng.random() < 0.3:
                import array as _array

                a.set_tag("XB", _array.array("h", [1, -2, 300]))
        if rng.random() < 0.05:
            a.flag |= 1024  # duplicate
        if rng.random() < 0.05:
            a.mapping_quality = rng.choice([0, 5, 19])
        if opts.get("bx") and rng.random() < 0.7:
            a.set_tag("BX", "BC%d" % rng.randint(1, opts.get("bx_pool", 6)))
        if opts.get("rg_less") and rng.random() < 0.05:
            a.set_tag("RG", None)  # a read that belongs to no read group (legal SAM): no sample, so it cannot be tagged
        out_recs.append(a)
        r = rng.random()
        if r < 0.06:
            b = pysam.AlignedSegment.fromstring(a.to_string(), hdr)
            b.flag = (b.flag | 256) & ~1024
            extra.append(b)
        elif r < 0.12 and a.query_length > 60 and len(a.cigartuples) == 1:
            b = pysam.AlignedSegment.fromstring(a.to_string(), hdr)
            k = a.query_length // 2
            b.flag = b.flag | 2048
            b.cigartuples = [(5, k), (0, a.query_length - k)]
            b.query_sequence = a.query_sequence[k:]
            b.query_qualities = a.query_qualities[k:]
            b.reference_start = a.reference_start + k
            extra.append(b)
        elif r < 0.15:
            b = pysam.AlignedSegment.fromstring(a.to_string(), hdr)
            b.query_name = a.query_name + "_um"
            b.flag = 4
            b.cigartuples = None
            b.mapping_quality = 0
            extra.append(b)  # placed unmapped
    if opts.get("orphan_contig") is not None:
        # a contig whose only records are placed unmapped reads (their mapped mates were filtered out earlier)
        for k, a in enumerate(out_recs + extra):
            if a.reference_id == opts["orphan_contig"]:
                if a.flag & (256 | 2048):
                    a.query_name += "_x%d" % k  # keep the records pairwise distinct
                a.flag = (a.flag | 4) & ~(256 | 2048)
                a.cigartuples = None
                a.mapping_quality = 0
    allr = out_recs + extra
    allr.sort(key=lambda x: (x.reference_id, x.reference_start))
    for k in range(rng.choice([0, 2, 5])):
        b = pysam.AlignedSegment(hdr)
        b.query_name = "unplaced%d" % k
        b.flag = 4
        b.reference_id = -1
        b.reference_start = -1
        b.query_sequence = "ACGTACGTAC"
        b.query_qualities = pysam.qualitystring_to_array("I" * 10)
        if rng.random() < 0.5:
            b.set_tag("HP", 1)
        allr.append(b)
    path = os.path.join(tmp, "haplotag_in.bam")
    with pysam.AlignmentFile(path, "wb", header=header) as out:
        for a in allr:
            out.write(a)
    pysam.index(path)
    return path


def strip(a):
    """String form of a record without HP/PS/PC."""
    import pysam

    b = pysam.AlignedSegment.fromstring(a.to_string(), a.header)
    for t in ("HP", "PS", "PC"):
        if b.has_tag(t):
            b.set_tag(t, None)
    return b.to_string()


def expected_records(bam_path, regions, chroms):
    import pysam

    f = pysam.AlignmentFile(bam_path)
    out = []
    if regions is None:
        for a in f.fetch(until_eof=True):
            out.append(a)
    else:
        # exactly the records overlapping >= 1 requested region, each once, in input (file) order - whatever the order in
        # which the regions were given and whether or not they overlap
        seen = {}
        for c, s, e in regions:
            for a in f.fetch(contig=c, start=s, stop=e):
                # the whole record: with names recurring across samples, two different reads may share name, flag,
                # start and CIGAR (seen once in 50 000 runs of the thorough tier)
                seen.setdefault(a.to_string(), a)
        order = {}
        with pysam.AlignmentFile(bam_path) as g:
            for i, a in enumerate(g.fetch(until_eof=True)):
                order.setdefault(a.to_string(), i)
        out = sorted(seen.values(), key=lambda a: order[a.to_string()])
    f.close()
    return out


def phase_info(doc, sample):
    """(chrom, pos0) -> (block, (a0, a1)) for heterozygous phased calls of the sample, by the own decoders."""
    si = doc.samples.index(sample)
    out = {}
    for r in doc.records:
        d = vcftext.decode_call(r["calls"][si])
        if d is None or d[2] is None:
            continue
        if len(set(d[2])) < 2:
            continue
        out[(r["chrom"], r["pos"] - 1)] = (int(d[1]), tuple(int(x) for x in d[2]))
    return out


def decide(vars_, info, chrom):
    """Expected decisions for one read: set of acceptable outcomes (HP, PS, PC) or None (untagged)."""
    scores = {}
    for pos, al, q in vars_:
        pi = info.get((chrom, pos))
        if pi is None:
            continue
        ps, ph = pi
        sc = scores.setdefault(ps, [0] * len(ph))
        for h, ha in enumerate(ph):
            if al == ha:
                sc[h] += q
    if not scores:
        return {None}, scores
    top = max(max(s) for s in scores.values())
    outs = set()
    for ps, s in scores.items():
        if max(s) != top:
            continue
        srt = sorted(s, reverse=True)
        if srt[0] == srt[1]:
            outs.add(None)  # the two best haplotypes tie
        else:
            outs.add((s.index(srt[0]) + 1, ps, srt[0] - srt[1]))
    return outs, scores


def tags_of(a):
    hp = a.get_tag("HP") if a.has_tag("HP") else None
    ps = a.get_tag("PS") if a.has_tag("PS") else None
    pc = a.get_tag("PC") if a.has_tag("PC") else None
    if hp is None and ps is None and pc is None:
        return None
    return (hp, ps, pc)


def run_haplotag_once(vcf, bam, out, sim, opts, listfile):
    from whatshap.cli.haplotag import run_haplotag

    kw = dict(variant_file=vcf, alignment_file=bam, output=out, reference=sim.fasta if opts["use_ref"] else False, haplotag_list=listfile)
    if opts.get("regions"):
        kw["regions"] = [(c if (s == 0 and e is None) else "%s:%d" % (c, s + 1)) if e is None else "%s:%d-%d" % (c, s + 1, e) for c, s, e in opts["regions"]]
    for k in ("tag_supplementary", "ignore_read_groups", "ignore_linked_read", "output_threads"):
        if opts.get(k):
            kw[k] = opts[k]
    if opts.get("samples"):
        kw["given_samples"] = opts["samples"]
    if opts.get("ploidy", 2) != 2:
        kw["ploidy"] = opts["ploidy"]
    del _CAP["reads"][:]
    run_haplotag(**kw)
    return list(_CAP["reads"])


def run_one(rng, counters):
    import pysam

    _install()
    tmp = tempfile.mkdtemp(prefix="c10-", dir=os.environ.get("WV_SCRATCH"))
    try:
        nsamp = rng.choice([1, 1, 2])
        samples = ["sample%s" % c for c in "AB"[:nsamp]]
        p = {"n_chrom": rng.choice([1, 2]), "chrom_len": 3000, "n_var": rng.randint(5, 18), "kinds": rng.choice([["snv"], ["snv", "snv", "ins", "del"]]),
             "samples": samples, "depth": rng.choice([3, 6, 10]), "read_len": rng.choice([(150, 400), (300, 1000)]), "paired": rng.choice([0.0, 0.5]),
             "end_policy": "clean", "error_rate": rng.choice([0.0, 0.01, 0.03, 0.05]), "het_prob": 0.85, "allow_shiftable": True}
        opts = {"use_ref": rng.random() < 0.5, "bx": rng.random() < 0.15, "tag_supplementary": rng.random() < 0.4,
                "ignore_linked_read": rng.random() < 0.3, "output_threads": rng.choice([1, 1, 2]), "cram": False,
                "vcf_tag": rng.choice(["PS", "HP"])}
        if not opts["use_ref"]:
            p["allow_shiftable"] = False
        P = rng.choice([2, 2, 2, 3, 4])
        if p["paired"] and rng.random() < 0.6:
            p["mate_overlap"] = True  # with sequencing errors the two mates can then contradict each other at a variant
        if nsamp == 2 and P == 2 and rng.random() < 0.5:
            p["names_per_sample"] = True  # each read group numbers its reads from 0: names recur across the samples
        opts["ploidy"] = P
        if opts["bx"] and P == 2 and rng.random() < 0.5:
            # read clouds further apart than the linked-read cutoff (50 kb) on one contig; with a large barcode pool some
            # barcodes occur on reads without variants here and form a cloud only on another island
            p.update({"n_chrom": 1, "islands": (rng.choice([2, 3]), 3000, rng.choice([51000, 70000]))})
            opts["bx_pool"] = rng.choice([6, 30, 60])
        if P == 2:
            sim = genome.simulate(rng, tmp, p)
        else:
            p = {"ploidy": P, "n_chrom": p["n_chrom"], "chrom_len": 3000, "n_var": rng.randint(5, 14), "samples": samples, "depth": rng.choice([2, 4]),
                 "read_len": (200, 800), "error_rate": p["error_rate"], "paired": p["paired"], "collapse": rng.choice([0.0, 0.5])}
            opts["use_ref"] = True
            opts["vcf_tag"] = "PS"
            sim = genome.simulate_poly(rng, tmp, p)
        if not sim.reads:
            return [], False, {"params": p}
        if P == 2:
            doc, blocks = genome.truth_phased_doc(sim, rng, tag=opts["vcf_tag"], block_len=(3, 9), hp_unsorted=0.3)
        else:
            doc, blocks = genome.truth_phased_doc_poly(sim, rng, block_len=(3, 9))
        vcf = os.path.join(tmp, "phased.vcf.gz")
        doc.write(vcf, compress=True)
        opts["rg_less"] = rng.random() < 0.3
        if len(sim.chroms) > 1 and rng.random() < 0.15:
            opts["orphan_contig"] = rng.randrange(len(sim.chroms))
        bam = build_bam(rng, sim, tmp, opts)
        if nsamp == 1 and rng.random() < 0.25:
            opts["ignore_read_groups"] = True
        if nsamp == 2 and rng.random() < 0.3:
            opts["samples"] = [samples[0]]
        if opts.get("samples") and nsamp == 2 and P == 2 and rng.random() < 0.4:
            # the sample that was not selected has haploid calls (a male sample on chrX): they do not concern the tagging of the other
            u = doc.samples.index(samples[1])
            which = rng.choice(sim.chroms)
            for r_ in doc.records:
                if r_["chrom"] == which and rng.random() < 0.6:
                    r_["calls"][u]["GT"] = rng.choice(["0", "1"])
                    for k_ in ("PS", "HP"):
                        if k_ in r_["calls"][u]:
                            r_["calls"][u][k_] = "."
            doc.write(vcf, compress=True)
            opts["haploid_calls_of_unselected_sample"] = True
        rmode = rng.random()
        if rmode < 0.2:
            c = rng.choice(sim.chroms)
            s = rng.randint(0, 1500)
            opts["regions"] = [(c, s, s + rng.randint(300, 1500))]
        elif rmode < 0.3 and len(sim.chroms) > 1:
            # bounded regions on two contigs
            regs = []
            for c in sim.chroms:
                s_ = rng.randint(0, 1200)
                regs.append((c, s_, s_ + rng.randint(400, 1700)))
            opts["regions"] = regs
        elif rmode < 0.45:
            c = sim.chroms[0]
            cuts = sorted(rng.sample(range(100, 2900), rng.choice([1, 2, 3])))
            bounds = [0] + cuts + [3000]
            regs = []
            for i in range(len(bounds) - 1):
                s, e = bounds[i], bounds[i + 1]
                if rng.random() < 0.3 and e - s > 200:
                    e -= rng.randint(10, 150)  # a gap between regions
                regs.append((c, s, e))
            opts["regions"] = regs
        if opts.get("regions") and rng.random() < 0.25:
            # open-ended requests: "chr1:601" (to the end of the contig) and a bare contig name
            regs = list(opts["regions"])
            k = rng.randrange(len(regs))
            c, s_, e_ = regs[k]
            regs[k] = (c, s_, None) if rng.random() < 0.7 else (c, 0, None)
            if rng.random() < 0.5 and s_ >= 50:
                # ... next to (adjacent to / overlapping) a closed one on the same contig
                regs.insert(k, (c, max(0, s_ - rng.randint(100, 600)), s_ + rng.choice([0, 0, 50])))
            opts["regions"] = regs
            opts["regions_open_ended"] = True
        if opts.get("regions") and len(opts["regions"]) > 1 and rng.random() < 0.4:
            # the same request spelled differently: regions in another order (contigs too), and overlapping ones
            regs = list(opts["regions"])
            if rng.random() < 0.5:
                c, s_, e_ = rng.choice(regs)
                s2 = max(0, s_ - rng.randint(0, 200))
                regs.append((c, s2, max(s2 + 1, e_ + rng.randint(-100, 300)) if e_ is not None else None))  # never an empty/inverted region
            rng.shuffle(regs)
            opts["regions"] = regs
            opts["regions_hostile"] = True
        if opts.get("regions") and len(opts["regions"]) > 1 and P == 2 and rng.random() < 0.5:
            # a long deletion record (homozygous reference in every sample) that reaches from one requested region into the next
            regs = sorted((r_ for r_ in opts["regions"] if r_[2] is not None), key=lambda t: (t[0], t[1]))
            for (c1, s1, e1), (c2, s2, e2) in zip(regs, regs[1:]):
                if c1 != c2 or s2 < e1 or e1 < 200:
                    continue
                start = e1 - rng.randint(40, 150)
                end = min(len(sim.ref[c1]) - 1, s2 + rng.randint(5, 60))
                if end - start < 10 or any(r_["chrom"] == c1 and r_["pos"] == start + 1 for r_ in doc.records):
                    continue
                rec = {"chrom": c1, "pos": start + 1, "id": ".", "ref": sim.ref[c1][start:end], "alts": [sim.ref[c1][start]], "qual": ".", "filter": "PASS", "info": ".",
                       "fmt": list(doc.records[0]["fmt"]), "calls": [dict((k_, "0/0" if k_ == "GT" else ".") for k_ in doc.records[0]["fmt"]) for _ in doc.samples], "kind": "del"}
                idx = next((k_ for k_, r_ in enumerate(doc.records) if r_["chrom"] == c1 and r_["pos"] > start + 1), None)
                if idx is None:
                    idx = max(k_ for k_, r_ in enumerate(doc.records) if r_["chrom"] == c1) + 1 if any(r_["chrom"] == c1 for r_ in doc.records) else len(doc.records)
                doc.records.insert(idx, rec)
                opts["long_deletion_across_regions"] = True
                break
            if opts.get("long_deletion_across_regions"):
                doc.write(vcf, compress=True)
                counters["runs_with_record_spanning_two_regions"] = counters.get("runs_with_record_spanning_two_regions", 0) + 1
        desc = {"params": p, "options": opts}
        out = os.path.join(tmp, "out.bam")
        lst = os.path.join(tmp, "list.tsv")
        try:
            cap = run_haplotag_once(vcf, bam, out, sim, opts, lst)
        except Exception:
            tb = traceback.format_exc()
            last = tb.strip().splitlines()[-1]
            if opts.get("regions") and "not ordered" in tb:
                # the generated VCF is sorted: the complaint is about the order / overlap of the requested regions
                return [{"mech": "crash:sorted-vcf-refused-as-unordered:regions", "msg": "run_haplotag raised: " + tb[-900:] + " regions %r" % (opts["regions"],)}], False, desc
            if "ploidy" in tb.lower() and opts.get("haploid_calls_of_unselected_sample"):
                return [{"mech": "refused:haploid-call-of-unselected-sample", "msg": "only %r is tagged and is diploid everywhere; refused because of the other sample's calls: %s" % (opts["samples"], tb[-300:])}], False, desc
            if "CommandLineError" in tb or "VcfNotSortedError" in tb:
                counters["refused"] = counters.get("refused", 0) + 1
                return [], False, desc
            return [{"mech": "crash:" + last.split(":")[0], "msg": "run_haplotag raised: " + tb[-1500:]}], False, desc
        counters["runs_ok"] = counters.get("runs_ok", 0) + 1
        if p.get("names_per_sample"):
            counters["runs_with_names_recurring_across_samples"] = counters.get("runs_with_names_recurring_across_samples", 0) + 1
        counters["runs_ploidy_%d" % opts["ploidy"]] = counters.get("runs_ploidy_%d" % opts["ploidy"], 0) + 1
        if opts.get("regions"):
            counters["runs_with_regions"] = counters.get("runs_with_regions", 0) + 1
        if opts.get("regions_hostile"):
            counters["runs_with_unordered_or_overlapping_regions"] = counters.get("runs_with_unordered_or_overlapping_regions", 0) + 1
        if opts.get("orphan_contig") is not None:
            counters["runs_with_unmapped_only_contig"] = counters.get("runs_with_unmapped_only_contig", 0) + 1
        if p.get("islands"):
            counters["runs_with_distant_read_clouds"] = counters.get("runs_with_distant_read_clouds", 0) + 1
        counters["hook_reads_seen"] = counters.get("hook_reads_seen", 0) + len(cap)
        viol = []
        # ---------------- conservation
        exp = expected_records(bam, opts.get("regions"), sim.chroms)
        of = pysam.AlignmentFile(out)
        got = [a for a in of.fetch(until_eof=True)]
        counters["records_compared"] = counters.get("records_compared", 0) + len(exp)
        es = [strip(a) for a in exp]
        gs = [strip(a) for a in got]
        if es != gs:
            from collections import Counter

            ce, cg = Counter(es), Counter(gs)
            dup = [k.split("\t")[0] for k, n in cg.items() if n > ce.get(k, 0)]
            miss = [k.split("\t")[0] for k, n in ce.items() if n > cg.get(k, 0)]
            multi_region = bool(opts.get("regions")) and len(opts["regions"]) > 1
            if dup and not miss and set(cg) == set(ce):
                mech = "conservation:duplicated" + (":read-overlapping-two-regions" if multi_region else "")
            elif miss and not dup:
                mech = "conservation:missing"
            elif not dup and not miss:
                mech = "conservation:order"
            else:
                mech = "conservation:altered"
            viol.append({"mech": mech, "msg": "output has %d records, expected %d; duplicated %r, missing %r" % (len(gs), len(es), dup[:4], miss[:4])})
        # ---------------- decision rule
        targets = opts.get("samples") or samples
        infos = {s: phase_info(doc, s) for s in targets}
        by_name = {}
        for chrom, sample, name, vars_, bx, rstart in cap:
            by_name[(chrom, sample, name)] = (sample, vars_, bx)

        def sample_of(a):
            if opts.get("ignore_read_groups"):
                return targets[0] if len(targets) == 1 else None
            if not a.has_tag("RG"):
                return None  # belongs to no sample
            return a.get_tag("RG")[3:]

        nontrivial = False
        linked = opts["bx"] and not opts["ignore_linked_read"]
        cloud_expect = {}
        if linked:
            # read clouds: in read-set order, an unprocessed read takes along all unprocessed reads with its barcode (within the
            # distance cutoff, which exceeds the contig here); the cloud's summed evidence decides for all its reads; a decided cloud is
            # registered under its barcode and lends its tag to alignments of that barcode whose read carries no evidence of its own
            groups = {}
            for chrom, sample, name, vars_, bx, rstart in cap:
                groups.setdefault((chrom, sample), []).append((name, vars_, bx, rstart))
            for (chrom, sample), reads in groups.items():
                info = infos.get(sample) if not opts.get("ignore_read_groups") else infos[targets[0]]
                assign, clouds, murky, done = {}, {}, set(), set()
                for name, vars_, bx, rstart in reads:
                    if name in done:
                        continue
                    members = [(name, vars_)]
                    if bx is not None:
                        members += [(n2, v2) for n2, v2, b2, s2 in reads if n2 != name and n2 not in done and b2 == bx and abs(s2 - rstart) <= 50000]
                    done.update(n for n, _ in members)
                    outs, scores = decide([x for _, v in members for x in v], info or {}, chrom)
                    if len(outs) > 1:
                        # several phase sets tie for the maximum: either decision is acceptable, and so is everything that depends on it
                        for n, _ in members:
                            assign[n] = "murky"
                        if bx is not None:
                            murky.add(bx)
                        continue
                    (o,) = outs
                    if o is None:
                        continue
                    if bx is not None:
                        clouds.setdefault(bx, []).append((rstart, o[0], o[1]))
                    for n, _ in members:
                        assign[n] = o
                cloud_expect[(chrom, sample)] = (assign, clouds, murky)
        seen_out = set()
        for a in got:
            if a.reference_id < 0:
                chrom = None
            else:
                chrom = a.reference_name
            t = tags_of(a)
            ignore = a.is_unmapped or a.is_secondary or (a.is_supplementary and not opts["tag_supplementary"])
            if ignore:
                if t is not None:
                    viol.append({"mech": "tag-on-ignored-alignment" + (":unplaced" if chrom is None else ""), "msg": "%s flag %d carries tags %r" % (a.query_name, a.flag, t)})
                continue
            if linked:
                exp = cloud_expect.get((chrom, sample_of(a)))
                if exp is None:
                    continue
                assign, clouds, murky = exp
                abx = a.get_tag("BX") if a.has_tag("BX") else None
                if a.query_name in assign:
                    if assign[a.query_name] == "murky":
                        continue
                    want = assign[a.query_name]
                elif abx is not None:
                    if abx in murky:
                        continue
                    want = None
                    for st, hp, ps in clouds.get(abx, []):
                        if abs(st - a.reference_start) <= 50000:
                            want = (hp, ps, None)
                            break
                else:
                    want = None
                counters["linked_tag_decisions_checked"] = counters.get("linked_tag_decisions_checked", 0) + 1
                if t != want:
                    viol.append({"mech": "wrong-tag:linked", "msg": "%s (%s, BX %r) tagged %r, the read-cloud rule gives %r" % (a.query_name, chrom, abx, t, want)})
                continue
            key = (chrom, sample_of(a), a.query_name)
            if key not in by_name:
                outs = {None}
                scores = {}
            else:
                sample, vars_, bx = by_name[key]
                info = infos.get(sample) if not opts.get("ignore_read_groups") else infos[targets[0]]
                outs, scores = decide(vars_, info or {}, chrom)
                if len(vars_) >= 2 and any(min(s) > 0 for s in scores.values()):
                    nontrivial = True
            counters["tag_decisions_checked"] = counters.get("tag_decisions_checked", 0) + 1
            if t not in outs:
                viol.append({"mech": "wrong-tag", "msg": "%s (%s) tagged %r, rule gives %r (scores per phase set %r)" % (a.query_name, chrom, t, sorted(outs, key=str), scores)})
        # ---------------- observed alleles (SNV-only diploid data): what the reader reports for a read must be what the read shows
        # (CIGAR-based detection only: with a reference the allele is defined by re-alignment of a window, where a nearby
        # sequencing error can legitimately make the two alleles tie)
        # ... unless the reads are error-free: then the window matches one allele exactly and differs from the other)
        if opts["ploidy"] == 2 and p.get("kinds") == ["snv"] and not opts.get("regions") and (not opts["use_ref"] or p.get("error_rate") == 0.0):
            frag = {}
            for a in got:
                if a.reference_id >= 0:
                    frag.setdefault((a.reference_name, sample_of(a), a.query_name), []).append(a)
            ref_alt = {(ch, v.pos): (v.ref, v.alt) for ch in sim.chroms for v in sim.variants[ch]}
            for key, recs in frag.items():
                chrom, sample, name = key
                info = infos.get(sample)
                if info is None or key not in by_name:
                    continue
                # plain fragments only: one or two primary alignments, nothing filtered, nothing supplementary
                if len(recs) > 2 or any(r_.is_secondary or r_.is_supplementary or r_.is_unmapped or r_.mapping_quality < 20 for r_ in recs):
                    continue
                obs, clash = {}, set()
                for r_ in recs:
                    for qp, rp in r_.get_aligned_pairs(matches_only=True):
                        if (chrom, rp) in info and (chrom, rp) in ref_alt:
                            b = r_.query_sequence[qp]
                            ref, alt = ref_alt[(chrom, rp)]
                            al = 0 if b == ref else 1 if b == alt else None
                            if al is None:
                                continue
                            if rp in obs and obs[rp] != al:
                                clash.add(rp)
                            obs.setdefault(rp, al)
                for rp in clash:
                    del obs[rp]  # the documented merge rule: only variants on which all alignments of the read agree
                reported = {pos: al for pos, al, q in by_name[key][1] if (chrom, pos) in info}
                counters["observed_allele_sets_compared"] = counters.get("observed_allele_sets_compared", 0) + 1
                if clash:
                    counters["fragments_with_contradicting_mates"] = counters.get("fragments_with_contradicting_mates", 0) + 1
                if reported != obs:
                    diff = sorted(set(obs.items()) ^ set(reported.items()))
                    viol.append({"mech": "reported-alleles-differ-from-read" + (":contradicting-mates" if clash else ""),
                                 "msg": "%s %s (%s): the read shows alleles %r at the phased SNVs (mates contradict at %r), the reader reported %r; differing %r" % (
                                     sample, name, chrom, sorted(obs.items()), sorted(clash), sorted(reported.items()), diff[:4])})
                    break
        # ---------------- list file
        names = {}
        with open(lst) as fh:
            next(fh)
            for l in fh:
                f = l.rstrip("\n").split("\t")
                names.setdefault((f[3], f[0]), []).append((f[1], f[2]))
                counters["list_lines_checked"] = counters.get("list_lines_checked", 0) + 1
        for a in got:
            if a.reference_id < 0 or a.is_secondary or a.is_supplementary:
                continue
            t = tags_of(a)
            want = ("none", "none") if (t is None or t[0] is None) else ("H%d" % t[0], str(t[1]))
            if want not in names.get((a.reference_name, a.query_name), []):
                viol.append({"mech": "list-vs-bam", "msg": "%s: BAM tags %r, list lines %r" % (a.query_name, t, names.get((a.reference_name, a.query_name)))})
                break
        # ---------------- regions metamorphism: a read all of whose alignments lie completely inside one requested region each
        # (and touch no other region) has all its variants inside the regions and is fetched exactly once per alignment, so
        # restricting the run to the regions cannot change its tag
        if not viol and not linked and opts.get("regions") and all(e is not None for _, _, e in opts["regions"]):
            out3 = os.path.join(tmp, "out3.bam")
            opts3 = {k_: v_ for k_, v_ in opts.items() if k_ != "regions"}
            try:
                run_haplotag_once(vcf, bam, out3, sim, opts3, os.path.join(tmp, "list3.tsv"))
            except Exception:
                out3 = None  # the run without --regions is judged by its own cases
            if out3:
                regs = opts["regions"]

                def _inside(a):
                    if a.is_unmapped or a.reference_end is None:
                        return False
                    hit = [(c_, s_, e_) for c_, s_, e_ in regs if c_ == a.reference_name and a.reference_start < e_ and a.reference_end > s_]
                    return len(hit) == 1 and hit[0][1] <= a.reference_start and a.reference_end <= hit[0][2]

                by_name = {}
                f_all = pysam.AlignmentFile(bam)
                for a in f_all.fetch(until_eof=True):
                    # by name only: mates may differ in their RG field (one may lack it), and with --ignore-read-groups they form one read
                    by_name.setdefault(a.query_name, []).append(_inside(a))
                f_all.close()
                f3 = pysam.AlignmentFile(out3)
                full = {}
                for a in f3.fetch(until_eof=True):
                    full.setdefault(strip(a), tags_of(a))
                f3.close()
                for a in got:
                    if not all(by_name.get(a.query_name, [False])):
                        continue
                    k_ = strip(a)
                    if k_ not in full:
                        continue
                    counters["regions_vs_whole_file_tags_compared"] = counters.get("regions_vs_whole_file_tags_compared", 0) + 1
                    ta_, tb_ = tags_of(a), full[k_]
                    if (ta_ and ta_[:2]) != (tb_ and tb_[:2]):
                        viol.append({"mech": "tag-depends-on-regions", "msg": "%s lies inside one requested region with all its alignments; tagged %r with --regions %r, %r without" % (a.query_name, ta_, regs, tb_)})
                        break
        # ---------------- swap metamorphism
        if not viol and not linked and blocks:
            (c0, s0) = rng.choice(sorted(blocks))
            if s0 in targets and blocks[(c0, s0)]:
                bid = rng.choice(sorted(blocks[(c0, s0)]))
                sw_i, sw_j = rng.sample(range(P), 2)
                doc2, _ = None, None
                import copy

                d2 = copy.deepcopy(doc)
                si = d2.samples.index(s0)
                for r in d2.records:
                    if r["chrom"] != c0:
                        continue
                    call = r["calls"][si]
                    dd = vcftext.decode_call(call)
                    if dd is None or int(dd[1]) != bid:
                        continue
                    if opts["vcf_tag"] == "PS":
                        al_ = call["GT"].split("|")
                        al_[sw_i], al_[sw_j] = al_[sw_j], al_[sw_i]
                        call["GT"] = "|".join(al_)
                    else:
                        parts = call["HP"].split(",")
                        call["HP"] = ",".join(reversed(parts))
                vcf2 = os.path.join(tmp, "swapped.vcf.gz")
                d2.write(vcf2, compress=True)
                out2 = os.path.join(tmp, "out2.bam")
                try:
                    run_haplotag_once(vcf2, bam, out2, sim, opts, os.path.join(tmp, "list2.tsv"))
                except Exception:
                    tb = traceback.format_exc()
                    return [{"mech": "crash-swapped", "msg": tb[-800:]}], False, desc
                counters["swap_reruns"] = counters.get("swap_reruns", 0) + 1
                got2 = [a for a in pysam.AlignmentFile(out2).fetch(until_eof=True)]
                if len(got2) != len(got):
                    viol.append({"mech": "swap-record-count", "msg": "%d vs %d records" % (len(got), len(got2))})
                else:
                    for a, b in zip(got, got2):
                        ta, tb_ = tags_of(a), tags_of(b)
                        rg_ok = (not a.has_tag("RG")) or a.get_tag("RG") == "rg_" + s0 or opts.get("ignore_read_groups")
                        in_set = ta is not None and ta[1] == bid and a.reference_name == c0 and rg_ok
                        if in_set and ta[0] in (sw_i + 1, sw_j + 1):
                            want = ((sw_j + 1) if ta[0] == sw_i + 1 else (sw_i + 1), ta[1], ta[2])
                        else:
                            want = ta
                        if tb_ != want:
                            # a read whose evidence ties between two phase sets may legitimately move
                            key = (a.reference_name, sample_of(a), a.query_name)
                            if key in by_name and not linked:
                                sample, vars_, bx = by_name[key]
                                outs, scores = decide(vars_, infos.get(sample) or {}, a.reference_name)
                                if len(outs) > 1:
                                    continue
                            viol.append({"mech": "swap-asymmetry", "msg": "after exchanging the haplotypes of phase set %s:%d of %s, %s went from %r to %r (expected %r)" % (c0, bid, s0, a.query_name, ta, tb_, want)})
                            break
        has_special = any(a.is_secondary or a.is_supplementary or a.is_unmapped for a in got)
        seen = set()
        viol = [x for x in viol if not (x["mech"] in seen or seen.add(x["mech"]))]
        return viol, nontrivial and has_special, desc
    finally:
        shutil.rmtree(tmp, ignore_errors=True)


def run_case(idx, rng, tier, lane):
    counters = {}
    keys = set()
    viol = []
    sample = None
    for j in range(5):
        v, nt, desc = run_one(rng, counters)
        for x in v:
            x["data"] = desc
        viol += v
        if nt:
            keys.add(hashlib.sha1(json.dumps(desc, sort_keys=True, default=str).encode()).hexdigest()[:16])
        sample = desc.get("options")
    counters["hook_calls"] = _CAP["hits"]
    seen = set()
    uniq = [x for x in viol if not (x["mech"] in seen or seen.add(x["mech"]))]
    return {"nontrivial": bool(keys), "key": sorted(keys), "violations": uniq, "counters": counters, "sample": sample, "case": None}
