"""C14 — split: every read goes exactly where its list entry says (replay model O-split)."""
import gzip
import hashlib
import json
import os
import shutil
import tempfile
import traceback

ID = "C14"
LEVEL = "exploration"
RULE = (
    "G-reads: 1..60 reads as FASTQ / FASTQ.gz / unaligned BAM (duplicate read names adjacent or apart, names with mate suffixes /1 /2 and other counters next to their "
    "bare form, input files named .fastq/.fq/.fastq.gz/.fq.gz, FASTQ comments, BAM "
    "records without sequence, tags), haplotype lists with 2 or 4 columns, with/without header, plain or gz, 'none' entries, "
    "names absent from the reads, reads absent from the list, ploidy 2 (--output-h1/-h2, either or both may be omitted: the untagged output alone is a legal request) or 2-4 (-o x n), "
    "every combination of --output-untagged, --add-untagged, --discard-unknown-reads, --only-largest-block (unique largest block "
    "per chromosome), --read-lengths-histogram; run through whatshap.cli.split.run_split, a quarter of the runs through the command line (parser, validate, main). Monitor O-split: replay of the input in "
    "order through a name->haplotype dict built by an own list parser gives the expected record sequence of every output file; "
    "outputs compared record by record (FASTQ 4-tuples, BAM to_string); partition check when all outputs are requested; histogram "
    "identity (column sums vs records written). Non-trivial: >=2 haplotypes receive reads and there is >=1 untagged or unlisted "
    "read; distinct by hash of (reads, list, options)."
)
REQUIRED_COUNTERS = ["runs_ok", "outputs_compared", "records_compared", "histograms_checked"]
ASSUMPTIONS = [
    "a read name occurs at most once in the list (duplicate names in the list are outside the quantifier)",
    "FASTQ records are compared as (name, comment, sequence, quality); the '+' line is not required to repeat the name",
]


def lanes(tier):
    return [("plain", "plain", 900 if tier == "quick" else 40000)]


def gen_case(rng):
    n = rng.randint(1, 60)
    fmt = rng.choice(["fastq", "fastq.gz", "bam"])
    ploidy = rng.choice([2, 2, 2, 3, 4])
    names = []
    dupmode = rng.choice(["none", "none", "adjacent", "apart"])
    base = 0
    while len(names) < n:
        # read-name shapes of real FASTQ files: mate suffixes (/1, /2), dotted / underscored / colon-separated counters; now
        # and then the suffixed and the bare form of one name are both present (they are different reads)
        nm = "read%d%s" % (base, rng.choice(["/1", "/2", "/1", "/2", "/a", ".1", "_2", ":1:N:0", "-R1"])) if rng.random() < 0.2 else "read%d" % base
        names.append(nm)
        if nm != "read%d" % base and rng.random() < 0.4 and len(names) < n:
            names.append(rng.choice(["read%d" % base, "read%d/%s" % (base, "2" if nm.endswith("/1") else "1")]))
        if dupmode == "adjacent" and rng.random() < 0.5 and len(names) < n:
            names.append(nm)
        base += 1
    if dupmode == "apart" and n >= 3:
        for _ in range(rng.randint(1, 3)):
            names[rng.randrange(1, n)] = names[rng.randrange(0, n)]
    reads = []
    for nm in names:
        L = rng.choice([0, 1, 5, 5, 10, 10, 10, 50]) if fmt == "bam" else rng.choice([0, 1, 5, 5, 10, 10, 10, 10, 50, 50])
        seq = "".join(rng.choice("ACGT") for _ in range(L))
        qual = "".join(chr(33 + rng.randint(0, 40)) for _ in range(L))
        reads.append({"name": nm, "seq": seq, "qual": qual, "comment": rng.choice(["", "", "x=1 y"]) if fmt != "bam" else "",
                      "tag": rng.randint(0, 99)})
    uniq = []
    for nm in names:
        if nm not in uniq:
            uniq.append(nm)
    listed = [nm for nm in uniq if rng.random() < rng.choice([1.0, 0.8, 0.5])]
    absent = ["ghost%d" % i for i in range(rng.choice([0, 0, 2, 5]))]
    entries = []
    ncols = rng.choice([2, 4, 4])
    chroms = ["chrA", "chrB"][: rng.randint(1, 2)]
    for nm in listed + absent:
        h = rng.choice(["none"] + ["H%d" % i for i in range(1, ploidy + 1)] * 2)
        ch = rng.choice(chroms)
        ps = rng.choice([100, 200, 300])
        entries.append([nm, h, str(ps) if h != "none" else "none", ch])
    if rng.random() < 0.3:
        # the list names a read twice with the same assignment (what `haplotag --output-haplotag-list` writes for the
        # two mates of a pair)
        entries += [list(e) for e in entries if rng.random() < 0.3]
    rng.shuffle(entries)
    if not entries:
        entries.append([uniq[0], rng.choice(["none", "H1"]), "none", chroms[0]])
        if entries[0][1] == "H1":
            entries[0][2] = "100"
    only_largest = ncols == 4 and rng.random() < 0.35
    if only_largest:
        # make the largest block per chromosome unique
        from collections import Counter

        for _ in range(20):
            cnt = {}
            for nm, h, ps, ch in entries:
                if h != "none":
                    cnt.setdefault(ch, Counter())[ps] += 1
            bad = False
            for ch, c in cnt.items():
                mc = c.most_common(2)
                if len(mc) == 2 and mc[0][1] == mc[1][1]:
                    bad = True
                    # drop one entry of the runner-up
                    for e in entries:
                        if e[3] == ch and e[2] == mc[1][0] and e[1] != "none":
                            e[1] = "none"
                            e[2] = "none"
                            break
            if not bad:
                break
    style = "h1h2" if ploidy == 2 and rng.random() < 0.6 else "o"
    outs = [True] * ploidy
    if style == "h1h2" and rng.random() < 0.3:
        outs[rng.randrange(2)] = False
        if rng.random() < 0.3:
            outs = [False, False]  # only the untagged output is requested
    opts = {
        "style": style,
        "outs": outs,
        "untagged": rng.random() < 0.6,
        "add_untagged": rng.random() < 0.3,
        "discard_unknown": rng.random() < 0.35,
        "only_largest": only_largest,
        "histogram": rng.random() < 0.7,
        "list_header": rng.random() < 0.5,
        "list_gz": rng.random() < 0.2,
        "ncols": ncols,
        # file-name shapes of FASTQ inputs (the format is detected from the name) and runs through the command line
        "short_ext": rng.random() < 0.3,
        "via_cli": rng.random() < 0.25,
    }
    if fmt == "bam" and rng.random() < 0.45:
        # an aligned BAM (as written by `haplotag`): forward / reverse, paired, secondary, supplementary (hard-clipped), duplicate
        # and QC-fail records; every record is one read of the input
        opts["mapped"] = True
        for r in reads:
            r["flag"] = rng.choice([0, 0, 16, 99, 147, 256, 272, 2048, 2064, 1024, 512, 4])
            r["pos"] = rng.randint(0, 5000)
    return {"fmt": fmt, "ploidy": ploidy, "reads": reads, "entries": entries, "opts": opts}


def _write_inputs(case, tmp):
    import pysam

    fmt = case["fmt"]
    rp = os.path.join(tmp, "reads." + (fmt.replace("fastq", "fq") if case["opts"].get("short_ext") else fmt))
    if fmt.startswith("fastq"):
        txt = "".join(
            "@%s%s\n%s\n+\n%s\n" % (r["name"], (" " + r["comment"]) if r["comment"] else "", r["seq"], r["qual"]) for r in case["reads"]
        )
        if fmt.endswith(".gz"):
            with gzip.open(rp, "wt") as fh:
                fh.write(txt)
        else:
            with open(rp, "w") as fh:
                fh.write(txt)
    else:
        header = {"HD": {"VN": "1.5", "SO": "unknown"}, "RG": [{"ID": "rg1", "SM": "s"}]}
        mapped = case["opts"].get("mapped")
        if mapped:
            header["SQ"] = [{"SN": "chrA", "LN": 100000}]
        with pysam.AlignmentFile(rp, "wb", header=header) as out:
            for r in case["reads"]:
                a = pysam.AlignedSegment(out.header) if mapped else pysam.AlignedSegment()
                a.query_name = r["name"]
                a.flag = 4
                a.reference_id = -1
                a.reference_start = -1
                a.mapping_quality = 0
                if r["seq"]:
                    a.query_sequence = r["seq"]
                    a.query_qualities = pysam.qualitystring_to_array(r["qual"])
                if mapped and r.get("flag", 4) != 4:
                    a.flag = r["flag"]
                    a.reference_id = 0
                    a.reference_start = r["pos"]
                    a.mapping_quality = 30
                    n = len(r["seq"] or "")
                    if n:
                        a.cigartuples = ([(5, 7)] if r["flag"] & 2048 else []) + [(0, n)]
                    if r["flag"] & 1:
                        a.next_reference_id = 0
                        a.next_reference_start = r["pos"] + 50
                a.set_tag("RG", "rg1")
                a.set_tag("zt", r["tag"])
                out.write(a)
    o = case["opts"]
    lp = os.path.join(tmp, "list.tsv" + (".gz" if o["list_gz"] else ""))
    lines = []
    if o["list_header"]:
        lines.append("\t".join(["#readname", "haplotype", "phaseset", "chromosome"][: o["ncols"]]))
    for e in case["entries"]:
        lines.append("\t".join(e[: o["ncols"]]))
    txt = "\n".join(lines) + "\n"
    if o["list_gz"]:
        with gzip.open(lp, "wt") as fh:
            fh.write(txt)
    else:
        with open(lp, "w") as fh:
            fh.write(txt)
    return rp, lp


def o_split(case):
    """Replay model: expected list of read indices per output (0 = untagged, 1..p) and histogram."""
    o = case["opts"]
    p = case["ploidy"]
    name2h = {}
    known = set()
    for e in case["entries"]:
        known.add(e[0])
        if e[1] != "none":
            name2h[e[0]] = int(e[1][1:])
    if o["only_largest"]:
        from collections import Counter

        cnt = {}
        for nm, h, ps, ch in case["entries"]:
            if h != "none":
                cnt.setdefault(ch, Counter())[ps] += 1
        keep = set()
        for ch, c in cnt.items():
            best = c.most_common(1)[0][0]
            for nm, h, ps, ch2 in case["entries"]:
                if ch2 == ch and ps == best and h != "none":
                    keep.add(nm)
        name2h = {k: v for k, v in name2h.items() if k in keep}
    requested = [o["untagged"]] + list(o["outs"])
    process = list(requested)
    process[0] = process[0] or o["add_untagged"]
    files = [[] for _ in range(p + 1)]
    hist = [dict() for _ in range(p + 1)]
    for i, r in enumerate(case["reads"]):
        if o["discard_unknown"] and r["name"] not in known:
            continue
        h = name2h.get(r["name"], 0)
        if not process[h]:
            continue
        hist[h][len(r["seq"])] = hist[h].get(len(r["seq"]), 0) + 1
        files[h].append(i)
        if h == 0 and o["add_untagged"]:
            for k in range(1, p + 1):
                files[k].append(i)
    return files, hist, requested


def _read_fastq(path):
    op = gzip.open if path.endswith(".gz") else open
    with op(path, "rt") as fh:
        lines = fh.read().split("\n")
    if lines and lines[-1] == "":
        lines.pop()
    recs = []
    for i in range(0, len(lines), 4):
        head = lines[i][1:]
        name, _, comment = head.partition(" ")
        recs.append((name, comment, lines[i + 1], lines[i + 3] if i + 3 < len(lines) else None))
    return recs


def _read_bam(path):
    import pysam

    with pysam.AlignmentFile(path, check_sq=False) as f:
        return [a.to_string() for a in f]


def check_case(case, tmp, counters):
    from whatshap.cli.split import run_split

    rp, lp = _write_inputs(case, tmp)
    o = case["opts"]
    p = case["ploidy"]
    ext = case["fmt"]
    paths = [os.path.join(tmp, "out_h%d.%s" % (k, ext)) for k in range(p + 1)]
    kw = dict(
        reads_file=rp,
        list_file=lp,
        output_untagged=paths[0] if o["untagged"] else None,
        add_untagged=o["add_untagged"],
        only_largest_block=o["only_largest"],
        discard_unknown_reads=o["discard_unknown"],
        read_lengths_histogram=os.path.join(tmp, "hist.tsv") if o["histogram"] else None,
    )
    if o["style"] == "h1h2":
        kw["output_h1"] = paths[1] if o["outs"][0] else None
        kw["output_h2"] = paths[2] if o["outs"][1] else None
        if not (kw["output_h1"] or kw["output_h2"] or kw["output_untagged"]):
            # something has to be requested; the untagged output alone is a legal request
            kw["output_untagged"] = paths[0]
            o["untagged"] = True
    else:
        kw["outputs"] = paths[1:]
    files, hist, requested = o_split(case)
    if o["discard_unknown"] and not case["entries"]:
        return None, []  # documented assertion: nothing known
    if o.get("via_cli"):
        from wv import pipeline

        argv = ["split"]
        for key, opt in (("output_h1", "--output-h1"), ("output_h2", "--output-h2"), ("output_untagged", "--output-untagged"),
                         ("read_lengths_histogram", "--read-lengths-histogram")):
            if kw.get(key):
                argv += [opt, kw[key]]
        for x in kw.get("outputs") or []:
            argv += ["-o", x]
        for key, opt in (("add_untagged", "--add-untagged"), ("only_largest_block", "--only-largest-block"), ("discard_unknown_reads", "--discard-unknown-reads")):
            if kw.get(key):
                argv.append(opt)
        argv += [rp, lp]
        counters["cli_runs"] = counters.get("cli_runs", 0) + 1
        st, msg = pipeline.cli_main(argv)
        if st != "ok":
            return False, [{"mech": "crash:cli-" + ("refused" if st == "cle" else msg.strip().splitlines()[-1].split(":")[0]), "msg": "whatshap split via the command line: " + msg[-1200:]}]
    else:
        try:
            run_split(**kw)
        except Exception:
            tb = traceback.format_exc()
            return False, [{"mech": "crash:" + tb.strip().splitlines()[-1].split(":")[0], "msg": "run_split raised: " + tb[-1200:]}]
    counters["runs_ok"] = counters.get("runs_ok", 0) + 1
    viol = []
    if ext == "bam":
        inp = _read_bam(rp)
    else:
        inp = [(r["name"], r["comment"], r["seq"], r["qual"]) for r in case["reads"]]
    got_all = []
    for k in range(p + 1):
        if not requested[k]:
            if os.path.exists(paths[k]):
                viol.append({"mech": "unrequested-output", "msg": "output %d written although not requested" % k})
            continue
        got = _read_bam(paths[k]) if ext == "bam" else _read_fastq(paths[k])
        exp = [inp[i] for i in files[k]]
        counters["outputs_compared"] = counters.get("outputs_compared", 0) + 1
        counters["records_compared"] = counters.get("records_compared", 0) + len(exp)
        got_all += got
        if got != exp:
            # classify: is the output a strict prefix of the expected sequence (early termination)?
            prefix = len(got) < len(exp) and got == exp[: len(got)]
            names = [r["name"] for r in case["reads"]]
            dup = len(set(names)) < len(names)
            if prefix and o["discard_unknown"] and dup:
                mech = "discard-unknown-stops-early-on-duplicate-names"
            elif prefix:
                mech = "output-truncated"
            elif sorted(map(str, got)) == sorted(map(str, exp)):
                mech = "order"
            else:
                mech = "wrong-output"
            viol.append(
                {
                    "mech": mech,
                    "msg": "output %s: %d records, expected %d; first difference at index %s"
                    % ("untagged" if k == 0 else "H%d" % k, len(got), len(exp),
                       next((i for i, (a, b) in enumerate(zip(got, exp)) if a != b), min(len(got), len(exp)))),
                }
            )
    if all(requested) and not o["add_untagged"] and not o["discard_unknown"] and not viol:
        if sorted(map(str, got_all)) != sorted(map(str, inp)):
            viol.append({"mech": "not-a-partition", "msg": "all outputs requested but their union is not the input"})
        counters["partitions_checked"] = counters.get("partitions_checked", 0) + 1
    if o["histogram"] and not viol:
        rows = [l.rstrip("\n").split("\t") for l in open(os.path.join(tmp, "hist.tsv"))]
        head, rows = rows[0], rows[1:]
        if len(head) != p + 2:
            viol.append({"mech": "histogram", "msg": "histogram header %r for ploidy %d" % (head, p)})
        else:
            sums = [sum(int(r[c + 1]) for r in rows) for c in range(p + 1)]
            for k in range(p + 1):
                if not requested[k]:
                    continue
                written = len(files[k])
                want = sums[k] + (sums[0] if (o["add_untagged"] and k > 0) else 0)
                if want != written:
                    viol.append({"mech": "histogram", "msg": "histogram says %d reads for output %d, %d were written" % (want, k, written)})
            # exact content vs model
            for c in range(p + 1):
                got_h = {int(r[0]): int(r[c + 1]) for r in rows if int(r[c + 1])}
                if got_h != hist[c]:
                    viol.append({"mech": "histogram", "msg": "histogram column %d %r != model %r" % (c, got_h, hist[c])})
                    break
        counters["histograms_checked"] = counters.get("histograms_checked", 0) + 1
    nt = sum(1 for k in range(1, p + 1) if files[k]) >= 2 and (len(files[0]) > 0 or any(r["name"] not in {e[0] for e in case["entries"]} for r in case["reads"]))
    return nt, viol


def run_case(idx, rng, tier, lane):
    counters = {}
    keys = set()
    viol = []
    sample = None
    for j in range(10):
        case = gen_case(rng)
        tmp = tempfile.mkdtemp(prefix="c14-", dir=os.environ.get("WV_SCRATCH"))
        try:
            nt, v = check_case(case, tmp, counters)
        finally:
            shutil.rmtree(tmp, ignore_errors=True)
        small = {"fmt": case["fmt"], "ploidy": case["ploidy"], "opts": case["opts"], "read_names": [r["name"] for r in case["reads"]][:40],
                 "entries": case["entries"][:40]}
        for x in v:
            x["data"] = small
        viol += v
        if nt:
            keys.add(hashlib.sha1(json.dumps(case, sort_keys=True).encode()).hexdigest()[:16])
        sample = small
        o = case["opts"]
        for k in ("add_untagged", "discard_unknown", "only_largest"):
            if o[k]:
                counters["opt_" + k] = counters.get("opt_" + k, 0) + 1
        counters["fmt_" + case["fmt"]] = counters.get("fmt_" + case["fmt"], 0) + 1
    seen = set()
    uniq = []
    for x in viol:
        if x["mech"] not in seen:
            seen.add(x["mech"])
            uniq.append(x)
    return {"nontrivial": bool(keys), "key": sorted(keys), "violations": uniq, "counters": counters, "sample": sample, "case": None}
