"""C09 — PS and HP encodings are equivalent, round-trip, and never mix old and new phase."""
import hashlib
import json
import os
import shutil
import tempfile

from wv import launch, pipeline
from wv.gen import genome
from wv.gen import vcf as gvcf
from wv.oracle import vcftext

ID = "C09"
LEVEL = "exploration"
RULE = (
    "Four strata per case. (i) tag equivalence: the same simulated input (1-3 samples, reads with 0-2% errors, unsorted unphased "
    "GT such as 1/0 in the input) is phased with --tag PS and --tag HP; both outputs must decode (own text decoders) to the same "
    "partition into phase sets with the same alleles up to one flip per set. (ii) round trip: what PhasedVcfWriter.write was "
    "given (interposed trace: component and haplotype alleles per position) vs. what the textual decoder and whatshap's own "
    "VcfReader(phases=True) read back from the file. (iii) a truth-phased VCF (PS or HP, consecutive or two interleaved block "
    "series, blocks of 2-8 variants, random block orientation) as the ONLY phase input must reproduce every block with >=2 "
    "heterozygous variants as its own phase set. (iv) histories of length 2-4 over {phase PS, phase HP, unphase} with changing "
    "--sample selections on the same file: after every phase step each phase statement found by either decoder for a target "
    "sample must be one the last run wrote (trace). Non-trivial: >=2 phase sets and a tag change or an unsorted GT involved; "
    "distinct by hash of the case description."
)
REQUIRED_COUNTERS = ["pairs_compared", "roundtrip_calls_checked", "reader_calls_checked", "vcf_input_blocks_checked", "history_steps_checked"]
ASSUMPTIONS = ["phased-VCF input: at most 2 interleaved block series, far below the coverage cap"]
WATCHDOG = {"quick": 300, "thorough": 900}


def lanes(tier):
    return [("plain", "plain", 480 if tier == "quick" else 10000)]


def canon_sets(text, sample):
    """Set of frozensets of (chrom,pos) + allele orientation class."""
    sets, tags = pipeline.decoded_sets(text, sample)
    out = {}
    for (c, b), items in sets.items():
        items = sorted(items)
        if not items or any(al is None for _, al in items):
            out[(c, tuple(p for p, _ in items))] = None
            continue
        first = items[0][1]
        flip = first[0] > first[1]
        norm = tuple((p, (al[1], al[0]) if flip else tuple(al)) for p, al in items)
        out[(c, tuple(p for p, _ in items))] = norm
    return out, tags


def check_roundtrip(text, out_path, trace, only_snvs, counters, doc, targets=None, earlier_written=None, return_written=None):
    """Trace of the writer vs. decoders vs. whatshap's reader. earlier_written: what earlier runs of a history wrote on
    chromosomes this run did not process (they must still be there); return_written: dict that receives this run's writes."""
    viol = []
    meta, samples, recs = vcftext.parse(text)
    si = {s: k for k, s in enumerate(samples)}
    written = dict(earlier_written or {})
    for w in trace["vcf_writes"]:
        for key in [k for k in written if k[1] == w["chromosome"] and k[0] in w["samples"]]:
            del written[key]
    for w in trace["vcf_writes"]:
        for s in w["samples"]:
            for pos, al in w["phases"][s].items():
                if pos in w["components"][s] and al[0] in (0, 1) and al[1] in (0, 1):
                    written[(s, w["chromosome"], pos + 1)] = (w["components"][s][pos] + 1, (str(al[0]), str(al[1])))
    if return_written is not None:
        return_written.update(written)
    # the samples the run was asked to phase, whether or not the writer was handed anything for them
    targets = set(targets) if targets is not None else {s for w in trace["vcf_writes"] for s in w["samples"]}
    seen_pos = set()
    for r in recs:
        first = (r["chrom"], r["pos"]) not in seen_pos
        elig = len(r["alts"]) == 1 and (not only_snvs or (len(r["ref"]) == 1 and len(r["alts"][0]) == 1))
        if elig:
            if not first:
                elig = False
            seen_pos.add((r["chrom"], r["pos"]))
        for s in targets:
            call = r["calls"][si[s]]
            d = vcftext.decode_call(call)
            w = written.get((s, r["chrom"], r["pos"])) if elig else None
            if w is not None and w[1][0] == w[1][1]:
                w = None  # homozygous result is not phased
            counters["roundtrip_calls_checked"] = counters.get("roundtrip_calls_checked", 0) + 1
            if d is None and w is None:
                continue
            if d is None:
                viol.append({"mech": "written-phase-lost", "msg": "%s %s:%d writer was given %r but the file decodes to no phase (%r)" % (s, r["chrom"], r["pos"], w, call)})
            elif w is None:
                viol.append({"mech": "stale-or-foreign-phase", "msg": "%s %s:%d decodes to %r but the run wrote no phase there (call %r)" % (s, r["chrom"], r["pos"], d, call)})
            elif (d[1], tuple(d[2]) if d[2] else None) != w:
                viol.append({"mech": "decode-differs-from-written", "msg": "%s %s:%d written %r, decodes (%s) to block %s alleles %r (call %r)" % (s, r["chrom"], r["pos"], w, d[0], d[1], d[2], call)})
    # whatshap's own reader
    from whatshap.vcf import MixedPhasingError, VcfReader

    try:
        rd = VcfReader(out_path, phases=True, only_snvs=only_snvs)
        tables = list(rd)
        rd.close()
    except MixedPhasingError as e:
        # the reader refuses any file that uses both encodings, also across different samples; only a mix within the
        # TARGET samples is a statement about this run
        used = set()
        for r in recs:
            for s in targets:
                d = vcftext.decode_call(r["calls"][si[s]])
                if d is not None:
                    used.add(d[0])
                if r["calls"][si[s]].get("HP", ".").strip("\x00") not in (".", "") and "|" in r["calls"][si[s]].get("GT", ""):
                    used.update(("HP", "PS"))
        if len(used) > 1:
            viol.append({"mech": "output-mixes-encodings", "msg": "whatshap's own reader refuses the output: %s" % e})
        else:
            counters["reader_refused_mix_from_nontarget_samples"] = counters.get("reader_refused_mix_from_nontarget_samples", 0) + 1
        return viol
    except Exception as e:
        viol.append({"mech": "reader-crash", "msg": "VcfReader raised %r on the output" % (e,)})
        return viol
    for t in tables:
        for s in targets:
            ph = t.phases_of(s)
            for v, p in zip(t.variants, ph):
                key = (s, t.chromosome, v.position + 1)
                w = written.get(key)
                if w is not None and w[1][0] == w[1][1]:
                    w = None
                got = None if p is None else (p.block_id, tuple(str(a) for a in p.phase))
                counters["reader_calls_checked"] = counters.get("reader_calls_checked", 0) + 1
                if got != w and not (w is None and got is None):
                    # only judge positions the writer could touch (first biallelic record of the position)
                    viol.append({"mech": "reader-differs-from-written", "msg": "%s %s:%d written %r, VcfReader returns %r" % (s, t.chromosome, v.position + 1, w, got)})
    return viol[:8]


def stratum_pair(rng, tmp, counters):
    nsamp = rng.choice([1, 2, 3])
    p = {
        "n_chrom": rng.choice([1, 2]), "chrom_len": 2500, "n_var": rng.randint(5, 18), "kinds": ["snv", "snv", "ins", "del"],
        "samples": ["sample%s" % c for c in "ABC"[:nsamp]], "depth": rng.choice([2, 4, 10]), "read_len": (120, 500), "paired": rng.choice([0.0, 0.5]),
        "end_policy": "clean", "error_rate": rng.choice([0.0, 0.02]), "het_prob": 0.8, "unsorted_gt": rng.choice([0.0, 0.4]),
    }
    more = {}
    if rng.random() < 0.25:
        # genotypes that contradict the reads, weak likelihoods: --distrust-genotypes re-genotypes calls (hom -> het with
        # --include-homozygous), and the new genotype has to be written the same way under both tags
        p.update({"with_pl": True, "gt_noise": (0.3, 0.0), "depth": 10, "error_rate": 0.0})
        more = {"distrust_genotypes": True, "include_homozygous": rng.random() < 0.6}
    sim = genome.simulate(rng, tmp, p)
    only_snvs = rng.random() < 0.2
    outs = {}
    viol = []
    desc = {"stratum": "pair", "params": p, "only_snvs": only_snvs, "more": more}
    for tag in ("PS", "HP"):
        out = os.path.join(tmp, "out_%s.vcf" % tag)
        status, trace, msg = pipeline.run_phase(sim, out, reference=sim.fasta, tag=tag, only_snvs=only_snvs, **more)
        if status == "cle":
            return [], False, desc
        if status != "ok":
            return [pipeline.crash_violation(msg)], False, desc
        text = open(out).read()
        outs[tag] = text
        for v in check_roundtrip(text, out, trace, only_snvs, counters, sim.doc, targets=p["samples"]):
            v["msg"] = "[--tag %s] " % tag + v["msg"]
            if p["unsorted_gt"] and tag == "HP" and v["mech"] in ("decode-differs-from-written", "reader-differs-from-written"):
                v["mech"] += ":hp-relative-to-unsorted-gt"
            viol.append(v)
    nsets = 0
    for s in p["samples"]:
        a, ta = canon_sets(outs["PS"], s)
        b, tb = canon_sets(outs["HP"], s)
        nsets += len(a)
        counters["pairs_compared"] = counters.get("pairs_compared", 0) + 1
        if set(a) != set(b):
            viol.append({"mech": "ps-hp-partition-differs", "msg": "%s: phase sets differ between --tag PS and --tag HP: only PS %r, only HP %r" % (s, sorted(set(a) - set(b))[:2], sorted(set(b) - set(a))[:2])})
        else:
            for k in a:
                if a[k] != b[k]:
                    mech = "ps-hp-alleles-differ" + (":hp-relative-to-unsorted-gt" if p["unsorted_gt"] else "")
                    viol.append({"mech": mech, "msg": "%s set %r: PS run decodes to %r, HP run to %r" % (s, k[1][:4], a[k][:4], b[k][:4])})
                    break
    return viol, nsets >= 2, desc


def stratum_vcf_input(rng, tmp, counters):
    p = {"n_chrom": rng.choice([1, 2]), "chrom_len": 3000, "n_var": rng.randint(6, 24), "kinds": ["snv", "snv", "ins", "del", "mnp"],
         "samples": ["sample%s" % c for c in "ABCD"[: rng.choice([1, 2, 3, 4])]], "depth": 1, "read_len": (100, 200), "het_prob": 0.9,
         "shared_positions": rng.random() < 0.5, "chain_contigs": rng.random() < 0.6}  # the same coordinates on every contig; a contig begins at the POS the previous one ended at
    sim = genome.simulate(rng, tmp, p)
    intag = rng.choice(["PS", "HP", "PS-without-PS-field"])
    # 2-6 interleaved series of phase sets (all of them fit under the default coverage cap of 15)
    interleave = rng.choice([True, True, 4, 6]) if (rng.random() < 0.5 and intag != "PS-without-PS-field") else False
    doc, blocks = genome.truth_phased_doc(sim, rng, tag="PS" if intag.startswith("PS") else "HP", block_len=(1, 8), interleave=interleave,
                                          no_ps=(intag == "PS-without-PS-field"), hp_unsorted=0.3)  # HP inputs: some GT in descending order
    pv = os.path.join(tmp, "phased_in.vcf")
    doc.write(pv)
    outtag = rng.choice(["PS", "HP"])
    out = os.path.join(tmp, "out.vcf")
    more = {}
    if rng.random() < 0.3:
        # --ignore-read-groups (all reads are one sample's) must not change what a phased VCF contributes
        more["ignore_read_groups"] = True
        if len(p["samples"]) > 1:
            more["samples"] = [rng.choice(p["samples"])]
            blocks = {k: v for k, v in blocks.items() if k[1] in more["samples"]}
    status, trace, msg = pipeline.run_phase(sim, out, phase_inputs=[pv], reference=False, tag=outtag, **more)
    desc = {"stratum": "vcf-input", "input_tag": intag, "output_tag": outtag, "interleave": interleave, "params": p, "more": more,
            "blocks": {"%s/%s" % k: {str(b): v for b, v in bl.items()} for k, bl in blocks.items()}}
    if status == "cle":
        return [{"mech": "refused", "msg": msg}], False, desc
    if status != "ok":
        return [pipeline.crash_violation(msg)], False, desc
    text = open(out).read()
    viol = []
    nb = 0
    for (c, s), bl in blocks.items():
        sets, _ = pipeline.decoded_sets(text, s)
        bypos = {}
        for (c2, b), items in sets.items():
            if c2 == c:
                for pos, al in items:
                    bypos[pos] = (b, al)
        used = {}
        for bid, items in bl.items():
            if len(items) < 2:
                continue
            nb += 1
            counters["vcf_input_blocks_checked"] = counters.get("vcf_input_blocks_checked", 0) + 1
            got = [bypos.get(pos) for pos, al in items]
            if any(g is None for g in got):
                viol.append({"mech": "input-block-not-reproduced", "msg": "%s %s input block %s %r: variants left unphased: %r" % (s, c, bid, [p for p, _ in items], [p for (p, _), g in zip(items, got) if g is None])})
                continue
            if len({g[0] for g in got}) != 1:
                viol.append({"mech": "input-block-split", "msg": "%s %s input block %s spread over output sets %r" % (s, c, bid, sorted({g[0] for g in got}))})
                continue
            ob = got[0][0]
            if ob in used:
                viol.append({"mech": "input-blocks-merged", "msg": "%s %s input blocks %s and %s share output set %s" % (s, c, used[ob], bid, ob)})
            used[ob] = bid
            same = all(tuple(g[1]) == al for (pos, al), g in zip(items, got))
            flip = all(tuple(g[1]) == (al[1], al[0]) for (pos, al), g in zip(items, got))
            if not (same or flip):
                viol.append({"mech": "input-block-alleles", "msg": "%s %s input block %s alleles %r reproduced as %r" % (s, c, bid, [al for _, al in items][:5], [g[1] for g in got][:5])})
    return viol, nb >= 2, desc


def stratum_history(rng, tmp, counters):
    nsamp = rng.choice([1, 2, 3])
    p = {"n_chrom": 1, "chrom_len": 2500, "n_var": rng.randint(5, 15), "kinds": rng.choice([["snv"], ["snv", "ins", "del"]]),
         "samples": ["sample%s" % c for c in "ABC"[:nsamp]], "allow_shiftable": False,
         "depth": rng.choice([3, 8]), "read_len": (150, 600), "end_policy": "clean", "error_rate": 0.0, "het_prob": 0.85}
    if nsamp > 1 and rng.random() < 0.4:
        # some target samples have no read at all: their old phase must still not survive a re-phasing run
        p["read_samples"] = rng.sample(p["samples"], rng.randint(1, nsamp - 1))
    if rng.random() < 0.3:
        p["n_chrom"] = 2
    sim = genome.simulate(rng, tmp, p)
    start_prephase = rng.choice([None, None, "PS", "HP"])
    if start_prephase:
        # the history starts from a file phased by "another tool": phase also on multi-ALT / duplicate records
        # (with several samples also missing / partial genotypes: a sample without genotype next to one that carries old phase)
        gvcf.hostilize(rng, sim.doc, prephase=start_prephase, allow_missing=nsamp > 1)
        sim.doc.write(sim.vcf)
    steps = []
    n = rng.randint(2, 4)
    while len(steps) < n:
        st = rng.choice(["PS", "HP", "PS", "HP", "unphase"])
        if st == "unphase" and (not steps or steps[-1][0] == "unphase"):
            continue
        sel = None
        if st != "unphase" and nsamp > 1 and rng.random() < 0.4:
            sel = rng.sample(p["samples"], rng.randint(1, nsamp - 1))
        steps.append((st, sel, st != "unphase" and rng.random() < 0.3))
    if not any(s[0] != "unphase" for s in steps[1:]):
        steps.append((rng.choice(["PS", "HP"]), None, False))
    desc = {"stratum": "history", "steps": steps, "params": p, "start_prephase": start_prephase}
    cur = sim.vcf
    viol = []
    phased_by = {s: start_prephase for s in p["samples"]} if start_prephase else {}  # sample -> tag that last phased it
    from whatshap.cli.unphase import run_unphase

    for k, (st, sel, osnv) in enumerate(steps):
        out = os.path.join(tmp, "step%d.vcf" % k)
        if st == "unphase":
            run_unphase(cur, out)
            text = open(out).read()
            meta, samples, recs = vcftext.parse(text)
            for r in recs:
                for c in r["calls"]:
                    if vcftext.decode_call(c) is not None:
                        viol.append({"mech": "phase-after-unphase", "msg": "step %d unphase left %r" % (k, c)})
            phased_by = {}
            cur = out
            continue
        sim.vcf_cur = cur
        status, trace, msg = pipeline.run_phase(sim, out, reference=False, tag=st, samples=sel, variant_file=cur, only_snvs=osnv)
        if status == "cle":
            viol.append({"mech": "history-refused", "msg": "step %d (%s): %s" % (k, st, msg[:200])})
            break
        if status != "ok":
            viol.append(pipeline.crash_violation(msg))
            break
        text = open(out).read()
        counters["history_steps_checked"] = counters.get("history_steps_checked", 0) + 1
        targets = sel or p["samples"]
        vs = check_roundtrip(text, out, trace, osnv, counters, sim.doc, targets=targets)
        prev_other = [phased_by[s] for s in targets if s in phased_by and phased_by[s] != st]
        for v in vs:
            if prev_other and v["mech"] in ("stale-or-foreign-phase", "output-mixes-encodings", "decode-differs-from-written", "reader-differs-from-written"):
                v["mech"] = "stale-phase-after-tag-change:%s-then-%s" % (prev_other[0], st)
            v["msg"] = "[history %r, step %d] %s" % ([s[0] for s in steps], k, v["msg"])
        viol += vs
        for s in targets:
            phased_by[s] = st
        cur = out
    tags = [s[0] for s in steps if s[0] != "unphase"]
    return viol, len(set(tags)) >= 2, desc


def stratum_chrom_tags(rng, tmp, counters):
    """One file phased chromosome by chromosome with different tags (phase --chromosome A --tag T1, then --chromosome B
    --tag T2 on the result): the phase written by the first run must still decode after the second."""
    nsamp = rng.choice([1, 2])
    p = {"n_chrom": rng.choice([2, 3]), "chrom_len": 2000, "n_var": rng.randint(5, 12), "kinds": ["snv"], "samples": ["sample%s" % c for c in "AB"[:nsamp]],
         "depth": 6, "read_len": (150, 600), "end_policy": "clean", "error_rate": 0.0, "het_prob": 0.85}
    sim = genome.simulate(rng, tmp, p)
    order = list(sim.chroms)
    rng.shuffle(order)
    tags = [rng.choice(["PS", "HP"])]
    for _ in order[1:]:
        tags.append("HP" if tags[-1] == "PS" else rng.choice(["PS", "HP", "PS"]))
    desc = {"stratum": "chromosome-by-chromosome", "order": order, "tags": tags, "params": p}
    cur = sim.vcf
    written = {}
    viol = []
    for k, (chrom, tag) in enumerate(zip(order, tags)):
        out = os.path.join(tmp, "cstep%d.vcf" % k)
        status, trace, msg = pipeline.run_phase(sim, out, reference=False, tag=tag, chromosomes=[chrom], variant_file=cur)
        if status != "ok":
            viol.append(pipeline.crash_violation(msg) if status == "crash" else {"mech": "history-refused", "msg": "step %d: %s" % (k, msg[:200])})
            break
        counters["history_steps_checked"] = counters.get("history_steps_checked", 0) + 1
        counters["chromosome_steps_checked"] = counters.get("chromosome_steps_checked", 0) + 1
        now = {}
        vs = check_roundtrip(open(out).read(), out, trace, False, counters, sim.doc, targets=p["samples"], earlier_written=written, return_written=now)
        for v in vs:
            v["msg"] = "[chromosomes %r with tags %r, step %d] %s" % (order, tags, k, v["msg"])
            if v["mech"] in ("written-phase-lost", "reader-differs-from-written") and k > 0:
                v["mech"] += ":earlier-chromosome-other-tag"
        viol += vs
        written = now
        cur = out
    return viol, len(set(tags)) >= 2, desc


def run_case(idx, rng, tier, lane):
    counters = {}
    keys = set()
    viol = []
    sample = None
    for j in range(6):
        tmp = tempfile.mkdtemp(prefix="c09-", dir=os.environ.get("WV_SCRATCH"))
        try:
            fn = [stratum_pair, stratum_vcf_input, stratum_history, stratum_chrom_tags][(idx + j) % 4]
            v, nt, desc = fn(rng, tmp, counters)
        finally:
            shutil.rmtree(tmp, ignore_errors=True)
        for x in v:
            x["data"] = {k: desc[k] for k in desc if k != "blocks"}
        viol += v
        if nt:
            keys.add(hashlib.sha1(json.dumps(desc, sort_keys=True, default=str).encode()).hexdigest()[:16])
        sample = {k: desc[k] for k in desc if k not in ("blocks",)}
    seen = set()
    uniq = [x for x in viol if not (x["mech"] in seen or seen.add(x["mech"]))]
    return {"nontrivial": bool(keys), "key": sorted(keys), "violations": uniq, "counters": counters, "sample": sample, "case": None}
