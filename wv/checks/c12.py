"""C12 — stats: independent counter, identities, block list, non-overlapping pieces, ALL = sum of rows."""
import contextlib
import hashlib
import io
import os
import shutil
import statistics
import tempfile
import traceback

from wv.gen import vcf as gvcf
from wv.oracle import vcftext

ID = "C12"
LEVEL = "exploration"
NEEDS_DEPS = True
RULE = (
    "G-vcf documents of ploidy 2, 3 or 4 (a quarter of the diploid ones with haploid calls of some or all samples on one contig, as on chrX/chrM) with PS- or HP-encoded phase sets (consecutive, interleaved, "
    "nested, up to 3 open at a time), unphased / homozygous / missing / partially missing calls, singletons, multi-ALT, "
    "symbolic and no-ALT records, duplicate positions, 1-3 chromosomes, 1-3 samples; run through whatshap.cli.stats.run_stats "
    "with --tsv --block-list --gtf and every combination of --only-snvs / --chromosome (plain and bgzip+tabix input) / "
    "--sample. Monitors: O-stats (own text-level counter) vs every additive TSV column and the per-block statistics; identities "
    "phased+unphased+singletons=heterozygous and sum of block sizes = phased; block list lines vs own blocks; interval "
    "monitor bp_per_block_sum <= union of block spans (== sum of spans when disjoint), max <= largest span; icontract "
    "post-condition on PhasingStats.get_nonoverlapping_blocks (pieces pairwise disjoint per chromosome, >=2 variants each, "
    "each piece inside one original block); ALL row == sum of chromosome rows. Non-trivial: >=2 phase sets on a chromosome of "
    "which >=1 pair overlaps, or a missing/partial genotype in the selected sample; distinct by input hash + options."
)
REQUIRED_COUNTERS = ["runs_ok", "rows_checked", "blocklist_lines_checked", "postcondition_evals", "all_rows_checked"]
ASSUMPTIONS = [
    "variants = biallelic records with an ALT, first of each position after the SNV filter; SNV = single-base REF and ALT "
    "('*' alleles are not generated)",
    "heterozygous = fully called genotype with >= 2 distinct alleles (user guide); a call with a missing allele is not heterozygous",
]
ADDITIVE = ["variants", "phased", "unphased", "singletons", "blocks", "variant_per_block_sum", "bp_per_block_sum",
            "heterozygous_variants", "heterozygous_snvs", "phased_snvs"]

_POST = {"evals": 0, "viol": []}


def lanes(tier):
    return [("plain", "plain", 1200 if tier == "quick" else 20000)]


def _pieces_ok(self, result):
    """Post-condition of get_nonoverlapping_blocks; records, never raises."""
    _POST["evals"] += 1
    orig = [b for b in self.blocks if len(b) > 1]
    by_chr = {}
    for p in result:
        if len(p) < 2:
            _POST["viol"].append("piece with %d variants returned" % len(p))
        vs = set(p.phases.keys())
        if not any(vs <= set(o.phases.keys()) for o in orig):
            _POST["viol"].append("piece %r is not contained in one original block" % sorted(v.position for v in vs))
        by_chr.setdefault(p.chromosome, []).append((p.leftmost_variant.position, p.rightmost_variant.position))
    for c, iv in by_chr.items():
        iv.sort()
        for (a0, a1), (b0, b1) in zip(iv, iv[1:]):
            if b0 <= a1:
                _POST["viol"].append("pieces overlap on %s: [%d,%d] and [%d,%d]" % (c, a0, a1, b0, b1))
    return True


class ContractBroken(Exception):
    pass


def worker_init(tier, lane, flavour):
    import icontract
    import whatshap.cli.stats as st

    st.PhasingStats.get_nonoverlapping_blocks = icontract.ensure(_pieces_ok, error=ContractBroken)(
        st.PhasingStats.get_nonoverlapping_blocks
    )


def o_stats(text, sample_index, only_snvs, chromosomes, hom_missing=False):
    """Own counter. Returns {chrom: dict(...)} in file order for the processed chromosomes.
    hom_missing=True reproduces the alternative model 'missing genotype counted heterozygous' (classification only)."""
    meta, samples, recs = vcftext.parse(text)
    out = {}
    order = []
    prev = {}
    for r in recs:
        c = r["chrom"]
        if chromosomes and c not in chromosomes:
            continue
        if c not in out:
            out[c] = {"variants": 0, "het": 0, "het_snvs": 0, "unphased": 0, "blocks": {}}
            order.append(c)
        if len(r["alts"]) != 1:
            continue
        is_snv = len(r["ref"]) == 1 and len(r["alts"][0]) == 1
        if only_snvs and not is_snv:
            continue
        if prev.get(c) == r["pos"]:
            continue
        prev[c] = r["pos"]
        o = out[c]
        o["variants"] += 1
        call = r["calls"][sample_index] if r["calls"] else {}
        gt = call.get("GT")
        alleles, _ = vcftext.split_gt(gt)
        if alleles is None or "." in alleles:
            if not hom_missing:
                continue
            o["het"] += 1
            o["het_snvs"] += is_snv
            d = vcftext.decode_call(call) if gt is not None else None
            if d is None or (d[0] == "PS"):
                o["unphased"] += 1
                continue
            o["blocks"].setdefault(d[1], []).append((r["pos"], is_snv))
            continue
        if len(set(alleles)) < 2:
            continue
        o["het"] += 1
        o["het_snvs"] += is_snv
        d = vcftext.decode_call(call)
        if d is None:
            o["unphased"] += 1
            continue
        o["blocks"].setdefault(d[1], []).append((r["pos"], is_snv))
    res = {}
    for c in order:
        o = out[c]
        big = {k: v for k, v in o["blocks"].items() if len(v) > 1}
        sizes = sorted(len(v) for v in big.values())
        row = {
            "variants": o["variants"],
            "heterozygous_variants": o["het"],
            "heterozygous_snvs": o["het_snvs"],
            "unphased": o["unphased"],
            "singletons": sum(1 for v in o["blocks"].values() if len(v) == 1),
            "blocks": len(big),
            "phased": sum(sizes),
            "variant_per_block_sum": sum(sizes),
            "phased_snvs": sum(sum(s for _, s in v) for v in big.values()),
            "variant_per_block_min": sizes[0] if sizes else 0,
            "variant_per_block_max": sizes[-1] if sizes else 0,
            "variant_per_block_median": statistics.median(sizes) if sizes else None,
            "_blocks": o["blocks"],
        }
        res[c] = row
    return res, order


def _union_len(iv):
    iv = sorted(iv)
    tot = 0
    cur = None
    for a, b in iv:
        if cur is None or a > cur[1]:
            if cur:
                tot += cur[1] - cur[0]
            cur = [a, b]
        else:
            cur[1] = max(cur[1], b)
    if cur:
        tot += cur[1] - cur[0]
    return tot


def _parse_tsv(path):
    rows = []
    with open(path) as fh:
        head = fh.readline().rstrip("\n").split("\t")
        for l in fh:
            f = l.rstrip("\n").split("\t")
            rows.append(dict(zip(head, f)))
    return rows


def _num(x):
    try:
        return int(x)
    except ValueError:
        return float(x)


def check_case(case, tmp, counters):
    from whatshap.cli.stats import run_stats

    viol = []
    doc = case["doc"]
    text = doc.text()
    path = os.path.join(tmp, "in.vcf" + (".gz" if case["compress"] else ""))
    doc.write(path, compress=case["compress"])
    tsv = os.path.join(tmp, "out.tsv")
    bl = os.path.join(tmp, "blocks.txt")
    gtf = os.path.join(tmp, "out.gtf")
    sample = case["sample"]
    sidx = doc.samples.index(sample) if sample else 0
    del _POST["viol"][:]
    ev0 = _POST["evals"]
    try:
        with contextlib.redirect_stdout(io.StringIO()):
            rc = run_stats(path, sample=sample, gtf=gtf, tsv=tsv, block_list=bl, only_snvs=case["only_snvs"],
                           chromosomes=case["chromosomes"])
    except Exception:
        tb = traceback.format_exc()
        last = tb.strip().splitlines()[-1]
        mech = "crash:" + last.split(":")[0]
        if "block_id" in tb or ("'<' not supported" in last and "NoneType" in last):
            mech = "crash:phased-gt-with-missing-PS"
        return [{"mech": mech, "msg": "run_stats raised: %s" % tb[-1200:]}]
    counters["runs_ok"] = counters.get("runs_ok", 0) + 1
    counters["postcondition_evals"] = counters.get("postcondition_evals", 0) + (_POST["evals"] - ev0)
    for v in _POST["viol"][:3]:
        viol.append({"mech": "nonoverlapping-pieces", "msg": v})
    chroms = None
    if case["chromosomes"]:
        chroms = [x for e in case["chromosomes"] for x in e.split(",") if x]
    exp, order = o_stats(text, sidx, case["only_snvs"], chroms)
    alt, _ = o_stats(text, sidx, case["only_snvs"], chroms, hom_missing=True)
    rows = _parse_tsv(tsv)
    chrom_rows = [r for r in rows if r["chromosome"] != "ALL"]
    all_rows = [r for r in rows if r["chromosome"] == "ALL"]
    got_order = [r["chromosome"] for r in chrom_rows]
    # with an index and --chromosome the order follows the option; compare as sets then per chromosome
    if sorted(got_order) != sorted(order):
        viol.append({"mech": "rows", "msg": "TSV rows for chromosomes %r, expected %r" % (got_order, order)})
        return viol
    for r in chrom_rows:
        c = r["chromosome"]
        e = exp[c]
        bad = []
        for k in ("variants", "heterozygous_variants", "heterozygous_snvs", "unphased", "singletons", "blocks", "phased",
                  "variant_per_block_sum", "phased_snvs", "variant_per_block_min", "variant_per_block_max"):
            if _num(r[k]) != e[k]:
                bad.append("%s: reported %s, counted %s" % (k, r[k], e[k]))
        if e["variant_per_block_median"] is not None and abs(float(r["variant_per_block_median"]) - e["variant_per_block_median"]) > 1e-9:
            bad.append("variant_per_block_median: reported %s, counted %s" % (r["variant_per_block_median"], e["variant_per_block_median"]))
        if bad:
            # classification: does the alternative model 'missing genotype = heterozygous, unphased' explain it fully?
            a = alt[c]
            explained = all(
                _num(r[k]) == a[k]
                for k in ("variants", "heterozygous_variants", "heterozygous_snvs", "unphased", "singletons", "blocks", "phased",
                          "variant_per_block_sum", "phased_snvs")
            )
            mech = "missing-genotype-counted-heterozygous" if explained else "count-mismatch"
            viol.append({"mech": mech, "msg": "chromosome %s sample %s: %s" % (c, doc.samples[sidx], "; ".join(bad))})
        # identities on the reported numbers themselves
        if _num(r["phased"]) + _num(r["unphased"]) + _num(r["singletons"]) != _num(r["heterozygous_variants"]):
            viol.append({"mech": "identity", "msg": "%s: phased+unphased+singletons != heterozygous: %s" % (c, r)})
        if _num(r["variant_per_block_sum"]) != _num(r["phased"]):
            viol.append({"mech": "identity", "msg": "%s: block size sum %s != phased %s" % (c, r["variant_per_block_sum"], r["phased"])})
        # interval monitor
        spans = [(min(p for p, _ in v), max(p for p, _ in v)) for v in e["_blocks"].values() if len(v) > 1]
        if spans and not bad:
            bsum = _num(r["bp_per_block_sum"])
            union = _union_len(spans)
            srt = sorted(spans)
            disjoint = all(b[0] > a[1] for a, b in zip(srt, srt[1:]))
            if bsum > union:
                viol.append({"mech": "bp-sum-exceeds-span", "msg": "%s: bp_per_block_sum %s > union of block spans %s (spans %r)" % (c, bsum, union, srt[:8])})
            if disjoint and bsum != sum(b - a for a, b in spans):
                viol.append({"mech": "bp-sum", "msg": "%s: disjoint blocks but bp_per_block_sum %s != sum of spans %s" % (c, bsum, sum(b - a for a, b in spans))})
            if _num(r["bp_per_block_max"]) > max(b - a for a, b in spans):
                viol.append({"mech": "bp-max", "msg": "%s: bp_per_block_max %s > largest span" % (c, r["bp_per_block_max"])})
            counters["interval_checks"] = counters.get("interval_checks", 0) + 1
        counters["rows_checked"] = counters.get("rows_checked", 0) + 1
    # ALL row
    if all_rows:
        a = all_rows[0]
        for k in ADDITIVE:
            s = sum(_num(r[k]) for r in chrom_rows)
            if _num(a[k]) != s:
                viol.append({"mech": "all-row", "msg": "ALL.%s = %s but rows sum to %s" % (k, a[k], s)})
        counters["all_rows_checked"] = counters.get("all_rows_checked", 0) + 1
    elif len(chrom_rows) > 1:
        viol.append({"mech": "all-row", "msg": "no ALL row although %d chromosomes were reported" % len(chrom_rows)})
    # block list
    lines = [l.rstrip("\n").split("\t") for l in open(bl)][1:]
    expl = []
    for c in order:
        for bid, v in exp[c]["_blocks"].items():
            expl.append([doc.samples[sidx], c, str(bid), str(min(p for p, _ in v)), str(max(p for p, _ in v)), str(len(v))])
    if sorted(lines) != sorted(expl):
        altl = []
        for c in order:
            for bid, v in alt[c]["_blocks"].items():
                altl.append([doc.samples[sidx], c, str(bid), str(min(p for p, _ in v)), str(max(p for p, _ in v)), str(len(v))])
        mech = "missing-genotype-counted-heterozygous" if sorted(lines) == sorted(altl) else "block-list"
        miss = [l for l in expl if l not in lines][:3]
        extra = [l for l in lines if l not in expl][:3]
        viol.append({"mech": mech, "msg": "block list differs: missing %r, unexpected %r" % (miss, extra)})
    counters["blocklist_lines_checked"] = counters.get("blocklist_lines_checked", 0) + len(lines)
    return viol


def gen_case(rng):
    ploidy = rng.choice([2, 2, 2, 3, 4])
    doc = gvcf.gen_doc(
        rng,
        ploidy_mode="fixed:%d" % ploidy,
        phasing=rng.choice(["PS", "PS", "HP", None]),
        hostile=True,
        n_records=rng.randint(1, 60),
        kinds=["snv"] * 6 + ["ins", "del", "mnp", "multi", "symbolic", "noalt"],
        with_pq=rng.random() < 0.2,
    )
    sex = None
    if ploidy == 2 and len(doc.contigs) >= 2 and rng.random() < 0.25:
        # a sex chromosome / chrM: on one contig some samples (possibly all) carry haploid calls, diploid everywhere else
        sex = "chrX" if "chrX" in doc.contigs else rng.choice(doc.contigs)
        who = [i for i in range(len(doc.samples)) if rng.random() < 0.6] or [0]
        for r in doc.records:
            if r["chrom"] != sex or not r["calls"] or "GT" not in (r["fmt"] or []):
                continue
            for i in who:
                call = r["calls"][i]
                g = call.get("GT", ".").replace("|", "/").split("/")[0]
                call["GT"] = g
                for k_ in ("PS", "HP", "PQ"):
                    if k_ in call:
                        call[k_] = "."
    compress = rng.random() < 0.4
    chroms = None
    if rng.random() < 0.4:
        pick = rng.sample(doc.contigs, rng.randint(1, len(doc.contigs)))
        pick = [c for c in doc.contigs if c in pick]
        chroms = [",".join(pick)] if rng.random() < 0.5 else pick
    return {
        "doc": doc,
        "compress": compress,
        "chromosomes": chroms,
        "only_snvs": rng.random() < 0.3,
        "sample": rng.choice([None] + doc.samples),
        "ploidy": ploidy,
        "haploid_contig": sex,
    }


def _nontrivial(case):
    doc = case["doc"]
    sidx = doc.samples.index(case["sample"]) if case["sample"] else 0
    exp, order = o_stats(doc.text(), sidx, case["only_snvs"], None)
    for c in order:
        spans = sorted((min(p for p, _ in v), max(p for p, _ in v)) for v in exp[c]["_blocks"].values() if len(v) > 1)
        if len(spans) >= 2 and any(b[0] <= a[1] for a, b in zip(spans, spans[1:])):
            return True
    for r in doc.records:
        if r["calls"] and "." in r["calls"][sidx].get("GT", ""):
            return True
    return False


def run_case(idx, rng, tier, lane):
    counters = {}
    keys = set()
    viol = []
    sample = None
    tmp = tempfile.mkdtemp(prefix="c12-", dir=os.environ.get("WV_SCRATCH"))
    try:
        for j in range(8):
            case = gen_case(rng)
            # present-but-missing chromosome lookups need every requested contig to have records
            present = {r["chrom"] for r in case["doc"].records}
            if case["chromosomes"]:
                req = [x for e in case["chromosomes"] for x in e.split(",")]
                if not all(x in present for x in req):
                    case["chromosomes"] = None
            if not present:
                continue
            v = check_case(case, tmp, counters)
            opts = {k: case[k] for k in ("compress", "chromosomes", "only_snvs", "sample", "ploidy")}
            for x in v:
                x["data"] = {"vcf": case["doc"].text(), "options": opts}
            viol += v
            if _nontrivial(case):
                keys.add(hashlib.sha1((case["doc"].text() + repr(opts)).encode()).hexdigest()[:16])
            sample = {"options": opts, "vcf_tail": case["doc"].text().splitlines()[-3:]}
    finally:
        shutil.rmtree(tmp, ignore_errors=True)
    seen = set()
    uniq = []
    for x in viol:
        if x["mech"] not in seen:
            seen.add(x["mech"])
            uniq.append(x)
    return {"nontrivial": bool(keys), "key": sorted(keys), "violations": uniq, "counters": counters, "sample": sample, "case": None}
