"""C20 — auxiliary reports (read list, changed-genotype list, recombination list) cover the whole run and agree with the VCF."""
import hashlib
import json
import os
import shutil
import tempfile

from wv import launch, pipeline
from wv.gen import genome
from wv.oracle import vcfdiff, vcftext

ID = "C20"
LEVEL = "exploration"
RULE = (
    "G-genome data with 2-4 chromosomes x (two trios | trio + unrelated samples | singles), planted recombination in the simulated "
    "inheritance, reads with 0-5% errors, noisy VCF genotypes and PL values so that --distrust-genotypes changes genotypes, 'quiet' "
    "chromosomes without errors/noise between noisy ones, single and paired reads (with --no-genetic-haplotyping: interleaved "
    "read-connected phase sets inside a family); every subset of "
    "{--output-read-list, --changed-genotype-list, --recombination-list}, with/without --distrust-genotypes, --ped, --chromosome "
    "subsets, both tags, --include-homozygous. Monitors (interposed trace of every solver instance and of the three writer calls vs. "
    "the files found after the run): conservation — number of recombination lines == sum of the counts returned by every "
    "write_recombination_list call, changed-genotype lines == multiset of all changes handed to write_changed_genotypes, read-list "
    "lines == all reads of all solver instances; soundness — every listed read was a solver read and its phase set is 1 + component "
    "of its first variant and equals the PS/HP of that variant in the output VCF when phased; every listed genotype change is exactly "
    "an input/output GT difference (own differ) and vice versa, none without --distrust-genotypes; every listed recombination lies "
    "between two consecutive variants of one component whose transmission values differ. Non-trivial: a run with >=2 (chromosome, "
    "family) instances that produced entries for >=1 report; distinct by hash of the run description."
)
REQUIRED_COUNTERS = ["runs_ok", "readlist_lines_checked", "gtchange_files_checked", "recomb_files_checked", "runs_with_multi_instance_entries"]
ASSUMPTIONS = []
WATCHDOG = {"quick": 300, "thorough": 900}


def lanes(tier):
    return [("plain", "plain", 200 if tier == "quick" else 3000)]


def gen_params(rng):
    mode = rng.choice(["two_trios", "trio_plus", "singles", "trio", "siblings"])
    if mode == "siblings":
        # one family with two or three children; the PED lists the children in an order that is not the alphabetical one, and
        # each child has its own crossovers (the recombination list must name the child whose transmission changes)
        kids = rng.sample(["zoe", "abe", "kim"], rng.choice([2, 2, 3]))
        samples = ["dad", "mom"] + kids
        ped = [("dad", "mom", k) for k in kids]
    elif mode == "two_trios":
        samples = ["dadA", "momA", "kidA", "dadB", "momB", "kidB"]
        ped = [("dadA", "momA", "kidA"), ("dadB", "momB", "kidB")]
    elif mode == "trio_plus":
        samples = ["dad", "mom", "kid", rng.choice(["loner", "aunt"])]  # the single sample's family sorts last / first
        ped = [("dad", "mom", "kid")]
    elif mode == "trio":
        samples, ped = ["dad", "mom", "kid"], [("dad", "mom", "kid")]
    else:
        samples, ped = ["s1", "s2"], []
    n_chrom = rng.choice([2, 2, 3, 4])
    chroms = ["chr%d" % (i + 1) for i in range(n_chrom)]
    paired = rng.choice([0.0, 0.0, 0.8])
    p = {
        "n_chrom": n_chrom,
        # chromosomes on which the reads carry no errors and the genotypes no noise: nothing to report there
        "quiet_chroms": sorted(c for c in chroms if rng.random() < 0.35) if rng.random() < 0.5 else [],
        "gt_noise": (rng.choice([0.0, 0.1, 0.2]), 0.0),
        "chrom_len": 2500,
        "n_var": rng.randint(8, 20) if not paired else rng.randint(14, 30),
        "pos1_prob": 0.15,
        "kinds": ["snv"],
        "samples": samples,
        "pedigree": ped,
        "recomb_prob": rng.choice([0.0, 0.1, 0.2]),
        "depth": rng.choice([3, 6, 12]),
        "read_len": (200, 900) if not paired else (500, 1400),
        "paired": paired,
        "mate_len": (60, 200),
        "end_policy": "clean",
        "error_rate": rng.choice([0.0, 0.02, 0.05]),
        "het_prob": 0.75,
        "with_pl": True,
        "names_per_chrom": rng.random() < 0.3,
    }
    opts = {
        "reference": False,
        "tag": rng.choice(["PS", "HP"]),
        "distrust_genotypes": rng.random() < 0.6,
        "reports": [r for r in ("read", "gt", "recomb") if rng.random() < 0.75],
        "ped": bool(ped),
    }
    if opts["distrust_genotypes"] and rng.random() < 0.3:
        opts["include_homozygous"] = True
    if rng.random() < 0.25:
        opts["chromosomes"] = rng.sample(["chr%d" % (i + 1) for i in range(p["n_chrom"])], p["n_chrom"] - 1)
    if ped and rng.random() < (0.6 if paired else 0.2):
        opts["genetic_haplotyping"] = False  # read-connected sets only: with paired reads they interleave
        if paired:
            # recombination events inside interleaved sets: many true crossovers and a recombination rate that makes them cheap
            p["recomb_prob"] = rng.choice([0.2, 0.4])
            opts["recombrate"] = rng.choice([1.26, 50.0, 50.0])
    if ped and rng.random() < 0.2:
        opts["recombrate"] = rng.choice([0.01, 1.26, 50.0])
    if mode == "siblings":
        p["recomb_prob"] = rng.choice([0.1, 0.2, 0.4])
        p["depth"] = rng.choice([3, 6])
        opts["recombrate"] = rng.choice([1.26, 50.0, 50.0])
        # 16 or 64 transmission states per column: a smaller --internal-downsampling keeps the solver's table (2^k x 4^children) small
        opts["max_coverage"] = 8 if len(samples) == 5 else 10
        if "recomb" not in opts["reports"] and rng.random() < 0.8:
            opts["reports"].append("recomb")
    return p, opts


def _lines(path):
    with open(path) as fh:
        ls = [l.rstrip("\n") for l in fh]
    return ls[0] if ls else None, ls[1:]


def run_one(rng, counters):
    tmp = tempfile.mkdtemp(prefix="c20-", dir=os.environ.get("WV_SCRATCH"))
    try:
        p, opts = gen_params(rng)
        sim = genome.simulate(rng, tmp, p)
        if rng.random() < 0.12:
            opts["read_merging"] = True  # --merge-reads: listed reads are the (merged) reads the solver was given
        ro = {k: v for k, v in opts.items() if k not in ("ped", "reports")}
        if opts["ped"]:
            ro["ped"] = sim.ped
        paths = {}
        if "read" in opts["reports"]:
            paths["read"] = ro["read_list_filename"] = os.path.join(tmp, "reads.tsv")
        if "gt" in opts["reports"]:
            paths["gt"] = ro["gtchange_list_filename"] = os.path.join(tmp, "gt.tsv")
        if "recomb" in opts["reports"] and opts["ped"]:
            paths["recomb"] = ro["recombination_list_filename"] = os.path.join(tmp, "recomb.tsv")
        out = os.path.join(tmp, "out.vcf")
        if rng.random() < 0.4:
            # a repeated execution: the report files of an earlier run are still there and must be replaced, not extended
            opts["stale_reports"] = True
            for kind_, path_ in paths.items():
                with open(path_, "w") as fh:
                    fh.write("#stale header of an earlier run\nstale\tchr9\t1\tx\ty\tz\tw\tv\nstale chr9 1 2 0 0 0 0 3\n")
        if rng.random() < 0.2:
            ro["via_cli"] = opts["via_cli"] = True  # through whatshap's argument parser, validate() and main()
            counters["runs_via_command_line"] = counters.get("runs_via_command_line", 0) + 1
        status, trace, msg = pipeline.run_phase(sim, out, **ro)
        desc = {"params": p, "options": opts}
        if status == "cle" and "No reads could be retrieved" in msg:
            return [], False, desc
        if status != "ok":
            return [pipeline.crash_violation(msg) if status == "crash" else {"mech": "unexpected-error", "msg": msg}], False, desc
        counters["runs_ok"] = counters.get("runs_ok", 0) + 1
        viol = []
        text = open(out).read()
        insts = [i for i in trace["instances"] if "reads" in i]
        entries_instances = 0
        # ---------------- read list
        if "read" in paths:
            head, lines = _lines(paths["read"])
            exp = [(r["name"], i["chromosome"]) for i in insts for r in i["reads"]]
            if len(lines) != len(exp):
                viol.append({"mech": "read-list-incomplete", "msg": "read list has %d lines, the solver instances used %d reads" % (len(lines), len(exp))})
            # soundness per line
            comp_of = {}
            for i in insts:
                for s in i["family"]:
                    comp_of[(i["chromosome"], s)] = (i["components"], {r["name"]: r for r in i["reads"]})
            sets_cache = {}
            k = 0
            per_inst = []
            for i in insts:
                per_inst.append(lines[k : k + len(i["reads"])])
                k += len(i["reads"])
            for i, chunk in zip(insts, per_inst):
                if chunk:
                    entries_instances += 1
                for l in chunk:
                    f = l.split("\t")
                    name, source, sample, ps, hap, ncov, first, last = f
                    key = (i["chromosome"], sample)
                    if key not in comp_of or name not in comp_of[key][1]:
                        viol.append({"mech": "read-list-foreign-read", "msg": "listed read %s (%s) was not handed to the solver for %s" % (name, sample, i["chromosome"])})
                        continue
                    comps, reads = comp_of[key]
                    r = reads[name]
                    fp = r["vars"][0][0]
                    if int(first) != fp + 1 or int(last) != r["vars"][-1][0] + 1 or int(ncov) != len(r["vars"]):
                        viol.append({"mech": "read-list-extent", "msg": "read %s listed with first/last/count %s/%s/%s, solver read has %d/%d/%d" % (name, first, last, ncov, fp + 1, r["vars"][-1][0] + 1, len(r["vars"]))})
                    if int(ps) != comps[fp] + 1:
                        viol.append({"mech": "read-list-phaseset", "msg": "read %s attributed to phase set %s, component of its first variant %d is %d" % (name, ps, fp + 1, comps[fp] + 1)})
                    if sample not in sets_cache:
                        sets_cache[sample] = {}
                        ds, _ = pipeline.decoded_sets(text, sample)
                        for (c, b), items in ds.items():
                            for pos, al in items:
                                sets_cache[sample][(c, pos)] = b
                    b = sets_cache[sample].get((i["chromosome"], fp + 1))
                    if b is not None and b != int(ps):
                        viol.append({"mech": "read-list-vs-vcf", "msg": "read %s listed in phase set %s but its first variant %s:%d has phase set %s in the output VCF" % (name, ps, i["chromosome"], fp + 1, b)})
                    counters["readlist_lines_checked"] = counters.get("readlist_lines_checked", 0) + 1
        # ---------------- changed genotypes
        if "gt" in paths:
            exp = [e for call in trace["gtchange_calls"] for e in call]
            if os.path.exists(paths["gt"]):
                head, lines = _lines(paths["gt"])
            else:
                lines = []
                if trace["gtchange_calls"]:
                    viol.append({"mech": "gtchange-missing", "msg": "changed-genotype list requested but not written"})
            # the list is compared with the VCF: the position column has to be the POS of the record (1-based, like the read list
            # and the recombination list); the writer's arguments carry 0-based positions
            got = sorted(tuple(l.split("\t")[:3]) for l in lines)
            want = sorted((s, c, str(pos + 1)) for s, c, pos, o, n in exp)
            if got != want and got == sorted((s, c, str(pos)) for s, c, pos, o, n in exp):
                viol.append({"mech": "gtchange-position-not-vcf-pos", "msg": "changed-genotype list names positions that are POS-1 of the changed records (0-based), e.g. %r; the VCF record is at %r" % (got[:2], want[:2])})
                got = want
            if got != want:
                lost = [w for w in want if w not in got]
                chroms_lost = sorted({w[1] for w in lost})
                last = trace["gtchange_calls"][-1] if trace["gtchange_calls"] else []
                only_last = got == sorted((s, c, str(pos + 1)) for s, c, pos, o, n in last)
                viol.append(
                    {
                        "mech": "gtchange-list-incomplete" + (":only-last-call-survives" if only_last else ""),
                        "msg": "changed-genotype list has %d entries, %d changes were reported by the writer over %d chromosome calls; lost e.g. %r (chromosomes %r)"
                        % (len(got), len(want), len(trace["gtchange_calls"]), lost[:3], chroms_lost),
                    }
                )
            # soundness: listed change == real GT difference between input and output
            a = vcfdiff.load(sim.vcf)
            b = vcfdiff.load(out)
            diffs = set()
            for x, y in zip(a["records"], b["records"]):
                for s in a["header"]["samples"]:
                    ga, gb = x["samples"][s]["__GT"][0], y["samples"][s]["__GT"][0]
                    if vcfdiff.multiset(ga) != vcfdiff.multiset(gb):
                        diffs.add((s, x["chrom"], str(x["pos"])))
            listed = set(want)
            if listed != diffs:
                viol.append({"mech": "gtchange-vs-vcf", "msg": "changes reported by the writer %r != genotype differences between input and output VCF %r" % (sorted(listed - diffs)[:3], sorted(diffs - listed)[:3])})
            if not opts["distrust_genotypes"] and (lines or diffs):
                viol.append({"mech": "gtchange-without-distrust", "msg": "%d listed / %d real genotype changes without --distrust-genotypes" % (len(lines), len(diffs))})
            if len({e[1] for e in exp}) >= 2:
                entries_instances = max(entries_instances, 2)
            counters["gtchange_files_checked"] = counters.get("gtchange_files_checked", 0) + 1
            counters["gtchange_entries"] = counters.get("gtchange_entries", 0) + len(want)
        # ---------------- recombination list
        if "recomb" in paths:
            total = sum(c["n"] for c in trace["recomb_calls"])
            if os.path.exists(paths["recomb"]):
                head, lines = _lines(paths["recomb"])
            else:
                lines = []
            calls_with = [c for c in trace["recomb_calls"] if c["n"]]
            if len(lines) != total:
                last_n = trace["recomb_calls"][-1]["n"] if trace["recomb_calls"] else 0
                viol.append(
                    {
                        "mech": "recomb-list-incomplete" + (":only-last-call-survives" if len(lines) == last_n else ""),
                        "msg": "recombination list has %d lines; the %d writer calls reported %d events in total (per call: %r)"
                        % (len(lines), len(trace["recomb_calls"]), total, [(c["chromosome"], c["n"]) for c in trace["recomb_calls"]][:8]),
                    }
                )
            for l in lines:
                f = l.split(" ")
                child, chrom, p1, p2 = f[0], f[1], int(f[2]) - 1, int(f[3]) - 1
                inst = [i for i in insts if i["chromosome"] == chrom and child in i["family"]]
                if not inst:
                    viol.append({"mech": "recomb-foreign", "msg": "recombination listed for %s on %s, no such solver instance" % (child, chrom)})
                    continue
                i = inst[0]
                comps = i["components"]
                if comps.get(p1) is None or comps.get(p1) != comps.get(p2):
                    viol.append({"mech": "recomb-across-sets", "msg": "recombination for %s between %s:%d and %d which are in different components" % (child, chrom, p1 + 1, p2 + 1)})
                    continue
                tri = [t[2] for t in i["trios"]].index(child)
                pos = i["positions"]
                t1 = (i["transmission"][pos.index(p1)] // (4**tri)) % 4
                t2 = (i["transmission"][pos.index(p2)] // (4**tri)) % 4
                if t1 == t2:
                    viol.append({"mech": "recomb-no-change", "msg": "recombination listed for %s at %s:%d-%d but the transmission value does not change there" % (child, chrom, p1 + 1, p2 + 1)})
                between = [q for q in pos if p1 < q < p2 and comps.get(q) == comps[p1]]
                if between:
                    viol.append({"mech": "recomb-not-adjacent", "msg": "recombination %s:%d-%d skips variants %r of the same component" % (chrom, p1 + 1, p2 + 1, between[:3])})
                counters["recomb_lines_checked"] = counters.get("recomb_lines_checked", 0) + 1
            if len(calls_with) >= 2:
                entries_instances = max(entries_instances, 2)
            if os.path.exists(paths["recomb"]):
                # the list against the solver's transmission values, line by line and for completeness (shared with C05; here the
                # phase sets interleave)
                from wv.checks import c05 as _c05

                viol += _c05.judge_recomb_list(trace, paths["recomb"], counters)
            counters["recomb_files_checked"] = counters.get("recomb_files_checked", 0) + 1
            counters["recomb_events_reported"] = counters.get("recomb_events_reported", 0) + total
        for i in insts:
            order = [i["components"].get(q) for q in i["positions"]]
            runs = sum(1 for k, x in enumerate(order) if k == 0 or x != order[k - 1])
            if runs > len(set(order)):
                counters["instances_with_interleaved_sets"] = counters.get("instances_with_interleaved_sets", 0) + 1
        nt = len(insts) >= 2 and entries_instances >= 2
        if nt:
            counters["runs_with_multi_instance_entries"] = counters.get("runs_with_multi_instance_entries", 0) + 1
        return viol, nt, desc
    finally:
        shutil.rmtree(tmp, ignore_errors=True)


def run_case(idx, rng, tier, lane):
    counters = {}
    keys = set()
    viol = []
    sample = None
    for j in range(5):
        v, nt, desc = run_one(rng, counters)
        for x in v:
            x["data"] = desc
        viol += v
        if nt:
            keys.add(hashlib.sha1(json.dumps(desc, sort_keys=True, default=str).encode()).hexdigest()[:16])
        sample = {"options": desc["options"], "samples": desc["params"]["samples"], "n_chrom": desc["params"]["n_chrom"]}
    seen = set()
    uniq = [x for x in viol if not (x["mech"] in seen or seen.add(x["mech"]))]
    return {"nontrivial": bool(keys), "key": sorted(keys), "violations": uniq, "counters": counters, "sample": sample, "case": None}
