"""C13 — unphase: accepts every VCF, removes all phase information and nothing else; idempotent."""
import hashlib
import os
import shutil
import subprocess
import sys
import tempfile
import traceback

from wv.gen import vcf as gvcf
from wv.oracle import vcfdiff, vcftext

ID = "C13"
LEVEL = "exploration"
RULE = (
    "G-vcf documents (1-3 samples, 1-3 contigs, SNV/indel/MNP/multi-ALT/symbolic/no-ALT records, duplicate positions, "
    "INFO/FORMAT fields of several Number/Type, per-call ploidy 1-4, '.', './.', '0/.', records without GT, PS- or HP-phased "
    "blocks incl. interleaved ones, PQ values, stray '|' genotypes, phase tags defined but unused, ##contig lines missing or "
    "incomplete) are unphased by "
    "whatshap.cli.unphase.run_unphase (in-process) and, for a sample of them, by the real CLI writing to stdout. Monitors: "
    "success; textual scan (no '|' genotype, no HP/PS/PQ FORMAT key); htslib record differ (everything but GT/HP/PS/PQ equal, "
    "GT allele multiset equal); idempotence unphase(unphase(x)) == unphase(x) record-for-record. History stratum: "
    "unphase(phase(x)) == unphase(x) on inputs phased by whatshap phase from a phased-VCF phase input (both tags). "
    "Non-trivial: the input carries >=1 phase statement ('|' GT, PS/HP/PQ value) and >=1 call that is not a plain diploid "
    "genotype; distinct by hash of the input text."
)
REQUIRED_COUNTERS = ["runs_ok", "diff_checked", "idempotence_checked", "phase_statements_in_input", "history_pairs_checked"]
ASSUMPTIONS = ["inputs are well-formed VCF 4.2 as accepted by htslib; bgzip input covered for a subset"]
MAX_WORKERS = 16


def lanes(tier):
    return [("plain", "plain", 500 if tier == "quick" else 16000), ("hist", "plain", 48 if tier == "quick" else 1600)]


def run_history(rng, counters):
    """unphase(phase(x)) == unphase(x), record for record, for x phased by whatshap phase (either tag)."""
    from whatshap.cli.unphase import run_unphase

    from wv import pipeline
    from wv.gen import genome

    tmp = tempfile.mkdtemp(prefix="c13h-", dir=os.environ.get("WV_SCRATCH"))
    if rng.random() < 0.3:
        return run_history_poly(rng, counters, tmp)
    try:
        nsamp = rng.choice([1, 2])
        p = {"n_chrom": rng.choice([1, 2]), "chrom_len": 2000, "n_var": rng.randint(4, 14), "kinds": ["snv", "snv", "ins", "del"],
             "samples": ["sample%s" % c for c in "AB"[:nsamp]], "depth": rng.choice([3, 8]), "read_len": (150, 600), "end_policy": "clean",
             "error_rate": rng.choice([0.0, 0.02]), "het_prob": 0.8, "unsorted_gt": rng.choice([0.0, 0.5]), "allow_shiftable": False}
        sim = genome.simulate(rng, tmp, p)
        prephase = rng.choice([None, None, "PS", "HP"])
        if rng.random() < 0.6:
            gvcf.hostilize(rng, sim.doc, prephase=prephase, allow_missing=True)
            sim.doc.write(sim.vcf)
        tag = rng.choice(["PS", "HP"])
        desc = {"params": p, "tag": tag, "prephase": prephase}
        if not vcfdiff.htslib_roundtrips(sim.vcf, os.path.join(tmp, "rt.vcf")):
            return [], False, desc
        phased = os.path.join(tmp, "phased.vcf")
        status, trace, msg = pipeline.run_phase(sim, phased, reference=False, tag=tag)
        if status != "ok":
            return [], False, desc
        u1, u2 = os.path.join(tmp, "u1.vcf"), os.path.join(tmp, "u2.vcf")
        try:
            run_unphase(phased, u1)
            run_unphase(sim.vcf, u2)
        except Exception:
            tb = traceback.format_exc()
            return [{"mech": classify_crash(tb, None), "msg": "run_unphase raised in the history stratum: %s" % tb[-1200:]}], False, desc
        counters["history_pairs_checked"] = counters.get("history_pairs_checked", 0) + 1
        r1 = vcftext.parse(open(u1).read())[2]
        r2 = vcftext.parse(open(u2).read())[2]
        viol = []
        nphased = sum(1 for r in vcftext.parse(open(phased).read())[2] for c in r["calls"] if vcftext.decode_call(c) is not None)
        if len(r1) != len(r2):
            viol.append({"mech": "history-record-count", "msg": "unphase(phase(x)) has %d records, unphase(x) %d" % (len(r1), len(r2))})
        for a, b in zip(r1, r2):
            if a != b:
                ka = {k: a[k] for k in a if a[k] != b.get(k)}
                kb = {k: b[k] for k in ka}
                viol.append({"mech": "history-differs", "msg": "%s:%d unphase(phase(x)) %r vs unphase(x) %r (tag %s)" % (a["chrom"], a["pos"], ka, kb, tag)})
                break
        return viol, nphased >= 2, desc
    finally:
        shutil.rmtree(tmp, ignore_errors=True)


def run_history_poly(rng, counters, tmp):
    """The same for a file phased by whatshap polyphase (optionally with --include-haploid-sets)."""
    from whatshap.cli.polyphase import run_polyphase
    from whatshap.cli.unphase import run_unphase

    from wv.gen import genome

    try:
        P = rng.choice([2, 3, 4])
        p = {"ploidy": P, "n_chrom": 1, "chrom_len": 2000, "n_var": rng.randint(5, 12), "samples": ["sampleA"], "depth": 6, "read_len": (200, 700),
             "error_rate": 0.01, "multiallelic": rng.choice([0.0, 0.2])}
        sim = genome.simulate_poly(rng, tmp, p)
        hs = rng.random() < 0.6
        desc = {"params": p, "polyphase": True, "include_haploid_sets": hs}
        phased = os.path.join(tmp, "phased.vcf")
        try:
            run_polyphase(phase_input_files=list(sim.bams), variant_file=sim.vcf, reference=sim.fasta, output=phased, ploidy=P,
                          include_haploid_sets=hs, write_command_line_header=False)
        except Exception:
            return [], False, desc
        u1, u2 = os.path.join(tmp, "u1.vcf"), os.path.join(tmp, "u2.vcf")
        try:
            run_unphase(phased, u1)
            run_unphase(sim.vcf, u2)
        except Exception:
            tb = traceback.format_exc()
            return [{"mech": classify_crash(tb, None), "msg": "run_unphase raised in the polyphase history stratum: %s" % tb[-1200:]}], False, desc
        counters["history_pairs_checked"] = counters.get("history_pairs_checked", 0) + 1
        counters["history_pairs_polyphase"] = counters.get("history_pairs_polyphase", 0) + 1
        r1 = vcftext.parse(open(u1).read())[2]
        r2 = vcftext.parse(open(u2).read())[2]
        viol = []
        for a, b in zip(r1, r2):
            if a != b:
                ka = {k: a[k] for k in a if a[k] != b.get(k)}
                kb = {k: b[k] for k in ka}
                left = sorted(set(a.get("fmt") or []) - set(b.get("fmt") or []))
                viol.append({"mech": "history-differs" + (":format-tag-left:" + ",".join(left) if left else ""),
                             "msg": "%s:%d unphase(polyphase(x)) %r vs unphase(x) %r (include_haploid_sets=%r)" % (a["chrom"], a["pos"], ka, kb, hs)})
                break
        nph = sum(1 for r in vcftext.parse(open(phased).read())[2] for c_ in r["calls"] if "|" in c_.get("GT", ""))
        return viol, nph >= 2, desc
    finally:
        shutil.rmtree(tmp, ignore_errors=True)


def _gt_policy(rec, sample, a, b):
    ga, pa = a
    gb, pb = b
    if pb:
        return "still phased: %r" % (gb,)
    if vcfdiff.multiset(ga) != vcfdiff.multiset(gb):
        return "allele multiset changed %r -> %r" % (ga, gb)
    return None


def classify_crash(exc_text, doc_features):
    """Mechanism key for an exception escaping run_unphase: by exception type and innermost whatshap frame."""
    last = exc_text.strip().splitlines()[-1]
    etype = last.split(":")[0].strip()
    frame = ""
    for l in exc_text.splitlines():
        if "whatshap/cli/unphase.py" in l:
            frame = l.strip().split(",")[-1].strip()
    return "crash:%s:%s" % (etype, frame.replace("in ", ""))


def check_doc(doc, tmp, counters, via_cli=False, compress=False):
    from whatshap.cli.unphase import run_unphase

    text = doc.text()
    path = os.path.join(tmp, "in.vcf" + (".gz" if compress else ""))
    doc.write(path, compress=compress)
    out1 = os.path.join(tmp, "out1.vcf")
    out2 = os.path.join(tmp, "out2.vcf")
    viol = []
    if not vcfdiff.htslib_roundtrips(path, out2):
        counters["skipped_htslib_cannot_copy"] = counters.get("skipped_htslib_cannot_copy", 0) + 1
        return []
    if via_cli:
        env = dict(os.environ)
        p = subprocess.run([sys.executable, "-m", "whatshap", "unphase", path], stdout=subprocess.PIPE, stderr=subprocess.PIPE, env=env, timeout=120)
        counters["cli_runs"] = counters.get("cli_runs", 0) + 1
        if p.returncode != 0:
            err = p.stderr.decode(errors="replace")
            return [{"mech": classify_crash(err, None), "msg": "whatshap unphase exited %d: %s" % (p.returncode, err[-1200:])}]
        with open(out1, "wb") as fh:
            fh.write(p.stdout)
    else:
        try:
            run_unphase(path, out1)
        except Exception:
            tb = traceback.format_exc()
            return [{"mech": classify_crash(tb, None), "msg": "run_unphase raised on a well-formed VCF: %s" % tb[-1500:]}]
    counters["runs_ok"] = counters.get("runs_ok", 0) + 1
    otext = open(out1).read()
    meta, samples, recs = vcftext.parse(otext)
    for r in recs:
        for k in ("HP", "PS", "PQ"):
            if k in r["fmt"]:
                viol.append({"mech": "phase-tag-left", "msg": "%s:%d still has FORMAT key %s: %r" % (r["chrom"], r["pos"], k, r["calls"])})
        for c in r["calls"]:
            if "|" in c.get("GT", ""):
                viol.append({"mech": "phased-gt-left", "msg": "%s:%d GT %s" % (r["chrom"], r["pos"], c["GT"])})
    counters["text_scans"] = counters.get("text_scans", 0) + 1
    a = vcfdiff.load(path)
    b = vcfdiff.load(out1)
    # HS (haploid phase sets of polyphase) is phase information of WhatsHap's own making and is removed with PS/HP/PQ; a header
    # that declares the ID for something else loses that declaration too (the ID is reserved, unphase cannot tell the two apart)
    diffs = vcfdiff.compare(a, b, _gt_policy, ignore_format=("HP", "PS", "PQ", "HS"), header_may_lose=("HP", "PS", "PQ", "HS"))
    counters["diff_checked"] = counters.get("diff_checked", 0) + 1
    counters["records_compared"] = counters.get("records_compared", 0) + len(a["records"])
    if diffs:
        viol.append({"mech": "record-diff", "msg": "; ".join(diffs[:6])})
    # INFO keys at text level (pysam hides END from record.info, so the htslib differ cannot see it come or go)
    from wv.pipeline import _info_keys

    irecs = vcftext.parse(doc.text())[2]
    if len(irecs) == len(recs):
        for x, y in zip(irecs, recs):
            ka, kb = _info_keys(x.get("info")), _info_keys(y.get("info"))
            counters["info_key_sets_compared"] = counters.get("info_key_sets_compared", 0) + 1
            if ka != kb:
                symbolic = any(str(alt).startswith("<") for alt in x.get("alts") or [])
                mech = "info-key-added:END-on-symbolic-alt" if (kb - ka == {"END"} and not (ka - kb) and symbolic) else "record-diff"
                viol.append({"mech": mech, "msg": "%s:%s INFO keys %r -> %r (ALT %r)" % (x.get("chrom"), x.get("pos"), sorted(ka), sorted(kb), x.get("alts"))})
                break
    # idempotence
    try:
        run_unphase(out1, out2)
    except Exception:
        tb = traceback.format_exc()
        viol.append({"mech": "idempotence-crash", "msg": "second unphase raised: %s" % tb[-800:]})
        return viol
    t2 = open(out2).read()
    if vcftext.parse(t2)[2] != recs:
        viol.append({"mech": "not-idempotent", "msg": "unphase(unphase(x)) differs from unphase(x) in records"})
    counters["idempotence_checked"] = counters.get("idempotence_checked", 0) + 1
    return viol


def _features(doc):
    n_phase = 0
    odd = 0
    for r in doc.records:
        for c in r["calls"]:
            gt = c.get("GT")
            if gt is None:
                odd += 1
                continue
            if "|" in gt:
                n_phase += 1
            if c.get("PS", ".") != "." or c.get("HP", ".") != "." or c.get("PQ", ".") != ".":
                n_phase += 1
            al, _ = vcftext.split_gt(gt)
            if len(al) != 2 or "." in al:
                odd += 1
    return n_phase, odd


def gen_case(rng):
    ploidy = rng.choice(["diploid", "mixed", "mixed", "fixed:3", "fixed:1", "fixed:4"])
    phasing = rng.choice([None, "PS", "PS", "HP", "HP"])
    doc = gvcf.gen_doc(
        rng,
        ploidy_mode=ploidy,
        phasing=phasing,
        hostile=rng.random() < 0.85,
        with_pq=rng.random() < 0.3,
        mixed_sep=True,
        defined_phase_tags=rng.choice([None, ["PS"], ["HP"], ["PS", "HP", "PQ"]]),
        n_records=rng.randint(1, 25),
    )
    if rng.random() < 0.08 and doc.records:
        # a site with 17 ALT alleles and a call using allele 16 / 17, or a call of ploidy 15: fine for VCF and htslib
        base = rng.choice(doc.records)
        alts = ["A" + "".join(rng.choice("ACGT") for _ in range(3)) + "%s" % "ACGT"[k % 4] * (k // 4 + 1) for k in range(17)]
        calls = []
        for _ in doc.samples:
            if rng.random() < 0.5:
                calls.append({"GT": rng.choice(["0/17", "16|3", "17/17", "2|16"])})
            else:
                calls.append({"GT": rng.choice(["/", "|"]).join(str(rng.randint(0, 2)) for _ in range(15))})
        doc.records.append({"chrom": base["chrom"], "pos": base["pos"] + 1000000, "id": ".", "ref": "A", "alts": alts, "qual": ".", "filter": ".", "info": ".",
                            "fmt": ["GT"], "calls": calls, "kind": "many-alleles"})
    r = rng.random()
    if r < 0.15:
        # ##contig lines are optional in VCF: none declared, or only the first one
        first = [m for m in doc.meta if m.startswith("##contig=")][:1] if r < 0.05 else []
        doc.meta = [m for m in doc.meta if not m.startswith("##contig=") or m in first]
        doc.undeclared_contigs = True
    return doc


def run_case(idx, rng, tier, lane):
    counters = {}
    keys = set()
    viol = []
    sample = None
    case = None
    if lane == "hist":
        for j in range(5):
            v, nt, desc = run_history(rng, counters)
            for x in v:
                x["data"] = desc
            viol += v
            if nt:
                keys.add(hashlib.sha1(repr(desc).encode()).hexdigest()[:16] + str(counters.get("history_pairs_checked")))
            sample = desc
        seen = set()
        viol = [x for x in viol if not (x["mech"] in seen or seen.add(x["mech"]))]
        return {"nontrivial": bool(keys), "key": sorted(keys), "violations": viol, "counters": counters, "sample": sample, "case": None}
    tmp = tempfile.mkdtemp(prefix="c13-", dir=os.environ.get("WV_SCRATCH"))
    try:
        for j in range(8):
            doc = gen_case(rng)
            nph, odd = _features(doc)
            counters["phase_statements_in_input"] = counters.get("phase_statements_in_input", 0) + nph
            counters["non_diploid_or_missing_calls"] = counters.get("non_diploid_or_missing_calls", 0) + odd
            via_cli = (j == 0 and idx % 8 == 0)
            v = check_doc(doc, tmp, counters, via_cli=via_cli, compress=(j == 1 and idx % 4 == 0))
            if v:
                for x in v:
                    x["data"] = {"vcf": doc.text()}
                viol += v
            if nph >= 1 and odd >= 1:
                keys.add(hashlib.sha1(doc.text().encode()).hexdigest()[:16])
            sample = {"vcf_head": doc.text().splitlines()[-3:], "phase_statements": nph, "odd_calls": odd}
    finally:
        import shutil

        shutil.rmtree(tmp, ignore_errors=True)
    # keep one violation per mechanism per case
    seen = set()
    uniq = []
    for x in viol:
        if x["mech"] not in seen:
            seen.add(x["mech"])
            uniq.append(x)
    return {"nontrivial": bool(keys), "key": sorted(keys), "violations": uniq, "counters": counters, "sample": sample, "case": None}
