"""C03 — phase sets are exactly the read-connected components, named by the leftmost variant."""
import hashlib
import json
import os
import shutil
import tempfile

from wv import launch, pipeline
from wv.gen import genome

ID = "C03"
LEVEL = "exploration"
RULE = (
    "G-genome data built to produce many, interleaved and nested components: short and paired reads (mates skipping variants), "
    "low depth (several components), high depth with a low cap (components cut by read selection), reads with 0-3% errors (ties), "
    "1-3 unrelated samples, trios and quartets with/without --no-genetic-haplotyping and --distrust-genotypes, both tags, "
    "--output-read-list. Oracle O-components: from the interposed trace, the reads handed to the solver and its columns; BFS "
    "components of the variant graph (all positions a read covers are joined; in pedigree mode with genetic haplotyping all retained "
    "variants that are homozygous in some member according to an own parse of the input VCF are joined); every phased call's PS/HP "
    "block id (own text decoders) must be 1 + leftmost position of its component. Cross monitor: read-list names == solver reads. "
    "Non-trivial: an instance with >=2 multi-variant components, or interleaved ones, or a pedigree merge joining >=2 read "
    "components; distinct by hash of the run description."
)
REQUIRED_COUNTERS = ["runs_ok", "component_instances", "ps_values_checked", "shape_multi", "hook_compute_overall_components"]
ASSUMPTIONS = ["connectivity is defined over covered variants (a chain may pass through a variant that ends up unphased)"]
WATCHDOG = {"quick": 300, "thorough": 900}


def lanes(tier):
    return [("plain", "plain", 240 if tier == "quick" else 4000)]


def gen_params(rng):
    mode = rng.choice(["single", "single", "multi", "trio", "trio", "quartet"])
    if mode == "single":
        samples, ped = ["sampleA"], []
    elif mode == "multi":
        samples, ped = ["sampleB", "sampleA", "sampleC"][: rng.randint(2, 3)], []
    elif mode == "trio":
        samples, ped = ["dad", "mom", "kid"], [("dad", "mom", "kid")]
        rng.shuffle(samples)
    else:
        samples, ped = ["dad", "mom", "kid1", "kid2"], [("dad", "mom", "kid1"), ("dad", "mom", "kid2")]
    p = {
        "n_chrom": rng.choice([1, 1, 2]),
        "chrom_len": rng.choice([2000, 4000]),
        "n_var": rng.randint(6, 30),
        "pos1_prob": 0.15,
        "kinds": rng.choice([["snv"], ["snv", "snv", "ins", "del"]]),
        "samples": samples,
        "pedigree": ped,
        "recomb_prob": rng.choice([0.0, 0.05]),
        "depth": rng.choice([1, 2, 3, 6, 20, 40]),
        "read_len": rng.choice([(60, 150), (100, 300), (200, 800)]),
        "paired": rng.choice([0.0, 0.5, 1.0, 1.0]),
        "end_policy": "clean",
        "error_rate": rng.choice([0.0, 0.0, 0.01, 0.03]),
        "het_prob": rng.choice([0.5, 0.8]),
        "with_pl": ped != [] and rng.random() < 0.3,
        "qual_mode": rng.choice(["const", "random", "zeros"]),
    }
    if rng.random() < 0.35:
        # dense variants, short mates far apart, few fragments: mutually interleaved and nested components
        p.update({"n_var": rng.randint(15, 40), "kinds": ["snv"], "chrom_len": 2000, "paired": 1.0, "mate_len": (31, 45),
                  "read_len": rng.choice([(150, 500), (300, 900)]), "depth": rng.choice([0.3, 0.6, 1, 2]), "error_rate": 0.0})
    opts = {
        "reference": rng.choice(["FASTA", False]),
        "tag": rng.choice(["PS", "HP"]),
        "max_coverage": rng.choice([2, 3, 6, 15]),
    }
    if not opts["reference"]:
        p["allow_shiftable"] = False
    if ped:
        opts["ped"] = True
        if rng.random() < 0.3:
            opts["genetic_haplotyping"] = False
        if p["with_pl"]:
            opts["distrust_genotypes"] = True
    if rng.random() < 0.5:
        opts["read_list"] = True
    if not ped and rng.random() < 0.25:
        # the input already carries phase (from "another tool"), also on records the writer skips
        opts["prephase"] = rng.choice(["PS", "HP"])
        if rng.random() < 0.4:
            opts["only_snvs"] = True
    return p, opts


def run_one(rng, counters):
    tmp = tempfile.mkdtemp(prefix="c03-", dir=os.environ.get("WV_SCRATCH"))
    try:
        p, opts = gen_params(rng)
        sim = genome.simulate(rng, tmp, p)
        if opts.get("prephase"):
            from wv.gen import vcf as gvcf

            gvcf.hostilize(rng, sim.doc, prephase=opts["prephase"], allow_missing=False)
            sim.doc.write(sim.vcf)
        if rng.random() < 0.12:
            opts["read_merging"] = True  # --merge-reads: the solver then sees merged reads; the components are those of what it sees
        ro = {k: v for k, v in opts.items() if k not in ("ped", "read_list", "prephase")}
        if ro["reference"] == "FASTA":
            ro["reference"] = sim.fasta
        if opts.get("ped"):
            ro["ped"] = sim.ped
        rl = None
        if opts.get("read_list"):
            rl = os.path.join(tmp, "reads.tsv")
            ro["read_list_filename"] = rl
        out = os.path.join(tmp, "out.vcf")
        if rng.random() < 0.2:
            ro["via_cli"] = opts["via_cli"] = True  # through whatshap's argument parser, validate() and main()
            counters["runs_via_command_line"] = counters.get("runs_via_command_line", 0) + 1
        status, trace, msg = pipeline.run_phase(sim, out, **ro)
        desc = {"params": p, "options": opts, "n_reads": len(sim.reads)}
        if status == "cle" and "No reads could be retrieved" in msg:
            counters["skipped_empty_bam"] = counters.get("skipped_empty_bam", 0) + 1
            return [], False, desc
        if status != "ok":
            return [pipeline.crash_violation(msg) if status == "crash" else {"mech": "unexpected-error", "msg": msg}], False, desc
        counters["runs_ok"] = counters.get("runs_ok", 0) + 1
        text = open(out).read()
        viol, shapes = pipeline.judge_components(sim, trace, text, counters, genetic_haplotyping=opts.get("genetic_haplotyping", True), read_list_path=rl)
        viol += pipeline.judge_witness(trace, counters, brute_limit=10)
        if opts.get("ped"):
            counters["pedigree_runs"] = counters.get("pedigree_runs", 0) + 1
        return viol, any(shapes.values()), desc
    finally:
        shutil.rmtree(tmp, ignore_errors=True)


def run_case(idx, rng, tier, lane):
    counters = {}
    keys = set()
    viol = []
    sample = None
    h0 = launch.hits()
    for j in range(6):
        v, nt, desc = run_one(rng, counters)
        for x in v:
            x["data"] = desc
        viol += v
        if nt:
            keys.add(hashlib.sha1(json.dumps(desc, sort_keys=True, default=str).encode()).hexdigest()[:16])
        sample = {"options": desc["options"], "samples": desc["params"]["samples"], "depth": desc["params"]["depth"], "n_reads": desc["n_reads"]}
    for k, n in launch.hits().items():
        counters["hook_" + k] = n - h0.get(k, 0)
    seen = set()
    uniq = [x for x in viol if not (x["mech"] in seen or seen.add(x["mech"]))]
    return {"nontrivial": bool(keys), "key": sorted(keys), "violations": uniq, "counters": counters, "sample": sample, "case": None}
