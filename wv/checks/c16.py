"""C16 — results depend on the input only: not on hash seed, thread count or repetition (real subprocesses)."""
import gzip
import hashlib
import json
import os
import shutil
import subprocess
import sys
import tempfile

from wv.gen import genome

ID = "C16"
LEVEL = "exploration"
RULE = (
    "Every subcommand is run as a real subprocess (python -m wv.subrun <subcommand> ..., which hands over to whatshap's own "
    "main()) on generated order-sensitive inputs (several samples/families whose names hash differently, cost ties, equal-score "
    "reads, several polyphase blocks, several contigs; polyphase also with a sample heterozygous everywhere whose reads reach only "
    "part of the contig, and with a partially pre-phased input under --use-prephasing) and, for hapcut2vcf / find_snv_candidates, on the "
    "repository's tests/data. Sweeps per input: PYTHONHASHSEED in {0,1,2,3,random,random}, plus polyphase --threads {1,2,3} with "
    "seeded random delays injected into phase_single_block_mt, haplotag --output-threads {1,2,4}, one repetition that writes to "
    "paths at which the outputs of the first run already exist, and one run that executes the command twice in one interpreter "
    "(second execution from a used heap); inputs also carry undeclared INFO keys, genotype noise with --distrust-genotypes and all "
    "three report lists for pedigrees, three-file comparisons with --tsv-multiway, BX read clouds tying between two phase sets, "
    "split --only-largest-block with tying blocks; `phase --algorithm heuristic|hapchat` (an input every run of which is refused alike "
    "has no result and is skipped and counted; a mix of refusing and succeeding runs is a violation); `learn` (native state in src/caller.cpp) additionally with the heap "
    "contents varied (MALLOC_PERTURB_ 85/170/255) and once under valgrind memcheck, where a repository frame that uses uninitialised "
    "memory is itself a violation (the result is then a function of heap garbage). Oracle: "
    "all output files of all runs of one input must be identical after dropping the recorded command line (##commandline, @PG CL) "
    "— VCF/TSV text, gz decompressed, BAM records via pysam. Evidence of reach: distinct iteration orders of a probe set of the "
    "sample names and distinct polyphase block completion orders are counted. Non-trivial: an input whose runs saw >=2 distinct "
    "probe-set orders (or block completion orders) and produced non-empty output; distinct by subcommand + input hash."
)
REQUIRED_COUNTERS = ["subprocess_runs", "inputs_compared", "distinct_probe_orders_seen", "outputs_compared"]
ASSUMPTIONS = ["hash seeds and schedules are sampled, not enumerated", "polyphasegenetic is not driven: the repository ships no input on which it runs end to end (it aborts with `assert clustering` on tests/data)", "learn: single-contig inputs only"]
WATCHDOG = {"quick": 900, "thorough": 2400}
KINDS = ["phase", "phase_ped", "phase_quartet", "genotype", "haplotag", "polyphase", "compare", "stats", "unphase", "split",
         "haplotagphase", "hapcut2vcf", "find_snv", "polyphase_allhet", "polyphase_prephased", "haplotag_ignore_rg", "learn", "learn_repo", "split_largest", "haplotag_bx",
         "phase_heuristic", "phase_hapchat"]
# the two non-default phasing algorithms refuse some inputs with an assertion (hapchat: more than one read-connected block; heuristic:
# some pedigree sample orders); a run that fails has no result, so an input on which every run fails alike is skipped and counted, while
# a mix of failing and succeeding runs, or differing outputs, is a violation
ALGO_KINDS = ("phase_heuristic", "phase_hapchat")


def lanes(tier):
    return [("plain", "plain", len(KINDS) * (2 if tier == "quick" else 12)), ("poly", "plain", 24 if tier == "quick" else 300)]


def norm_text(path):
    op = gzip.open if path.endswith(".gz") else open
    with op(path, "rt", errors="replace") as fh:
        return "".join(l for l in fh if not l.startswith("##commandline"))


def norm_bam(path):
    import pysam

    f = pysam.AlignmentFile(path, check_sq=False)
    hdr = f.header.to_dict()
    for pg in hdr.get("PG", []):
        pg.pop("CL", None)
    recs = [a.to_string() for a in f.fetch(until_eof=True)]
    f.close()
    return json.dumps(hdr, sort_keys=True) + "\n" + "\n".join(recs)


def run_cmd(args, env_extra, probe_out, timeout=600):
    env = dict(os.environ)
    env.update(env_extra)
    env["WV_PROBE_OUT"] = probe_out
    pre = []
    vglog = env.pop("WV_VGLOG", None)
    if vglog:
        # memcheck over the same process: a native frame of the repository that branches on / uses uninitialised memory means the
        # result is a function of heap garbage, not of the input
        pre = ["valgrind", "-q", "--error-limit=no", "--leak-check=no", "--num-callers=30", "--fullpath-after=", "--log-file=" + vglog]
        env["PYTHONMALLOC"] = "malloc"
        timeout *= 6
    try:
        p = subprocess.run(pre + [sys.executable, "-m", "wv.subrun"] + args, env=env, stdout=subprocess.PIPE, stderr=subprocess.PIPE, timeout=timeout)
    except subprocess.TimeoutExpired:
        return -999, b"", "no result within %d s" % timeout
    return p.returncode, p.stdout, p.stderr.decode(errors="replace")[-1500:]


def build_input(kind, rng, tmp):
    """Returns (argv_template(outdir) -> (args, output files), probe names, variants of (label, env, extra args))."""
    repo = os.environ.get("WV_REPO", "/repo")
    seeds = ["0", "1", "2", "3", "random", "random"]
    variants = [("hs%s#%d" % (s, i), {"PYTHONHASHSEED": s}, []) for i, s in enumerate(seeds)]
    variants.append(("repeat", {"PYTHONHASHSEED": "0"}, []))
    variants.append(("inproc2", {"PYTHONHASHSEED": "0", "WV_INPROC_REPEAT": "1"}, []))
    if kind in ("phase", "phase_ped", "phase_quartet", "genotype") + ALGO_KINDS:
        if kind == "phase_hapchat":
            samples, ped = ["zeta", "alpha", "Mike"][: rng.choice([1, 1, 2, 3])], []
        elif kind == "phase_heuristic" and rng.random() < 0.4:
            samples, ped = ["papa", "mama", "kid", "x_loner"], [("papa", "mama", "kid")]
        elif kind in ("phase", "phase_heuristic"):
            samples, ped = ["zeta", "alpha", "Mike", "b2"][: rng.randint(2, 4)], []
        elif kind == "phase_quartet":
            samples, ped = ["papa", "mama", "kidA", "kidB"], [("papa", "mama", "kidA"), ("papa", "mama", "kidB")]
        else:
            samples, ped = ["papa", "mama", "kid", "x_loner"], [("papa", "mama", "kid")]
        p = {"n_chrom": 2, "chrom_len": 2500, "n_var": rng.randint(8, 16), "kinds": ["snv"], "samples": samples, "pedigree": ped,
             "depth": rng.choice([4, 8]) if kind != "phase_quartet" else 12, "read_len": (150, 600), "error_rate": 0.03, "het_prob": 0.8,
             "qual_mode": "const", "recomb_prob": 0.05, "with_pl": kind != "genotype"}
        if kind in ALGO_KINDS:
            p["n_chrom"] = rng.choice([1, 2])
            p["chrom_len"] = rng.choice([1200, 2500])
            p["n_var"] = rng.randint(4, 14)
            p["depth"] = rng.choice([3, 5, 10])
        if ped and kind not in ("genotype",) + ALGO_KINDS:
            # genotype calls that contradict the reads (weak likelihoods): --distrust-genotypes then changes several family members,
            # often at one position, and lists the changes
            p["gt_noise"] = (0.3, 0.0)
            p["depth"] = 12
        sim = genome.simulate(rng, tmp, p)
        if kind != "genotype" and rng.random() < 0.6:
            # INFO keys whatshap knows how to declare (AC, AN, END, SVLEN, SVTYPE) used without being declared in the header
            for r in sim.doc.records:
                r["info"] = ";".join(rng.sample(["AC=1", "AN=2", "SVLEN=1", "SVTYPE=X"], rng.randint(2, 4)))
            sim.doc.write(sim.vcf)
        if ped and kind != "genotype" and rng.random() < 0.5:
            # nothing to phase on the first contig: every genotype homozygous reference there
            for r in sim.doc.records:
                if r["chrom"] == sim.chroms[0]:
                    for call in r["calls"]:
                        call["GT"] = "0/0"
            sim.doc.write(sim.vcf)

        def make(outdir):
            out = os.path.join(outdir, "out.vcf")
            if kind == "genotype":
                args = ["genotype", "--reference", sim.fasta, "-o", out, sim.vcf] + sim.bams
                if ped:
                    args += ["--ped", sim.ped]
                return args, [out]
            rl = os.path.join(outdir, "reads.tsv")
            args = ["phase", "--no-reference", "-o", out, "--output-read-list", rl, sim.vcf] + sim.bams
            outs = [out, rl]
            if kind in ALGO_KINDS:
                args += ["--algorithm", kind.split("_")[1]]
                if ped:
                    args += ["--ped", sim.ped]
                return args, outs
            if ped:
                rc = os.path.join(outdir, "recomb.tsv")
                gl = os.path.join(outdir, "gtchanges.tsv")
                args += ["--ped", sim.ped, "--use-ped-samples", "--recombination-list", rc, "--distrust-genotypes", "--changed-genotype-list", gl]
                outs += [rc, gl]
                if kind == "phase_quartet":
                    args += ["--internal-downsampling", "15"]
            return args, outs

        return make, samples, variants
    if kind == "split_largest":
        # split --only-largest-block on a list in which two phase sets of a chromosome tie for the most tagged reads
        import pysam

        p = {"n_chrom": 2, "chrom_len": 2500, "n_var": 8, "kinds": ["snv"], "samples": ["zeta"], "depth": 6, "read_len": (200, 700), "error_rate": 0.0, "het_prob": 0.9}
        sim = genome.simulate(rng, tmp, p)
        lst = os.path.join(tmp, "tags.tsv")
        with pysam.AlignmentFile(sim.bams[0]) as f, open(lst, "w") as out:
            out.write("#readname\thaplotype\tphaseset\tchromosome\n")
            per = {}
            for a in f:
                per.setdefault(a.reference_name, [])
                if a.query_name not in per[a.reference_name]:
                    per[a.reference_name].append(a.query_name)
            for c, names in per.items():
                sets = [str(x) for x in rng.sample(range(100, 5000), rng.choice([2, 3]))]
                k = max(1, len(names) // (len(sets) + 1))
                for i, nm in enumerate(names):
                    j = i // k
                    if j < len(sets):  # the same number of tagged reads in every phase set: a tie for the largest block
                        out.write("%s\tH%d\t%s\t%s\n" % (nm, 1 + i % 2, sets[j], c))
                    else:
                        out.write("%s\tnone\tnone\t%s\n" % (nm, c))

        def make(outdir):
            h1, h2, un = (os.path.join(outdir, n) for n in ("h1.bam", "h2.bam", "un.bam"))
            hist = os.path.join(outdir, "hist.tsv")
            return ["split", "--only-largest-block", "--output-h1", h1, "--output-h2", h2, "--output-untagged", un, "--read-lengths-histogram", hist, sim.bams[0], lst], [h1, h2, un, hist]

        return make, ["zeta", "alpha", "chr1", "chr2"], variants
    if kind == "haplotag_bx":
        # linked reads: many barcodes whose cloud consists of one read on each of two phase sets with the same evidence,
        # so that the cloud's phase set is decided by a tie-break
        import pysam

        p = {"n_chrom": 1, "chrom_len": 4000, "n_var": 16, "kinds": ["snv"], "samples": ["zeta"], "depth": 8, "read_len": (150, 350), "error_rate": 0.0, "het_prob": 1.0}
        sim = genome.simulate(rng, tmp, p)
        doc, blocks = genome.truth_phased_doc(sim, rng, tag="PS", block_len=(2, 4))
        vcf = os.path.join(tmp, "phased.vcf.gz")
        doc.write(vcf, compress=True)
        src = pysam.AlignmentFile(sim.bams[0])
        hdr = src.header.to_dict()
        recs = list(src)
        src.close()
        bam = os.path.join(tmp, "bx.bam")
        with pysam.AlignmentFile(bam, "wb", header=hdr) as out:
            for i, a in enumerate(recs):
                a.set_tag("BX", "BC%02d" % (i % max(2, len(recs) // 3)))
                out.write(a)
        pysam.index(bam)

        def make(outdir):
            out = os.path.join(outdir, "out.bam")
            lst = os.path.join(outdir, "list.tsv")
            return ["haplotag", "--reference", sim.fasta, "-o", out, "--output-haplotag-list", lst, vcf, bam], [out, lst]

        return make, ["zeta", "alpha", "b", "c"], variants
    if kind in ("haplotag", "haplotagphase", "split", "haplotag_ignore_rg"):
        samples = ["zeta", "alpha"]
        p = {"n_chrom": 2, "chrom_len": 2500, "n_var": 12, "kinds": ["snv"], "samples": samples, "depth": 6, "read_len": (200, 700),
             "paired": 0.5, "error_rate": 0.02, "het_prob": 0.85, "names_per_sample": rng.random() < 0.5}
        sim = genome.simulate(rng, tmp, p)
        doc, blocks = genome.truth_phased_doc(sim, rng, tag="PS", block_len=(3, 8))
        vcf = os.path.join(tmp, "phased.vcf.gz")
        doc.write(vcf, compress=True)
        if kind == "haplotag_ignore_rg":
            # read groups ignored, two samples of the VCF requested: every read is scored against both samples' phasings

            def make(outdir):
                out = os.path.join(outdir, "out.bam")
                lst = os.path.join(outdir, "list.tsv")
                return ["haplotag", "--reference", sim.fasta, "-o", out, "--output-haplotag-list", lst, "--ignore-read-groups",
                        "--sample", "zeta", "--sample", "alpha", vcf, sim.bams[0]], [out, lst]

            return make, samples, variants
        if kind == "haplotag":
            variants = variants + [("ot2", {"PYTHONHASHSEED": "0"}, ["--output-threads", "2"]), ("ot4", {"PYTHONHASHSEED": "1"}, ["--output-threads", "4"])]

            def make(outdir):
                out = os.path.join(outdir, "out.bam")
                lst = os.path.join(outdir, "list.tsv")
                return ["haplotag", "--reference", sim.fasta, "-o", out, "--output-haplotag-list", lst, vcf, sim.bams[0]], [out, lst]

            return make, samples, variants
        # first produce a tagged BAM / list once (in-process is fine: it is an input here)
        import pysam
        from whatshap.cli.haplotag import run_haplotag

        tagged = os.path.join(tmp, "tagged.bam")
        lst = os.path.join(tmp, "tags.tsv")
        run_haplotag(variant_file=vcf, alignment_file=sim.bams[0], output=tagged, reference=sim.fasta, haplotag_list=lst)
        pysam.index(tagged)
        if kind == "haplotagphase":
            unp = os.path.join(tmp, "unphased.vcf.gz")
            sim.doc.write(unp, compress=True)

            def make(outdir):
                out = os.path.join(outdir, "out.vcf")
                return ["haplotagphase", "--reference", sim.fasta, "-o", out, unp, tagged], [out]

            return make, samples, variants

        def make(outdir):
            h1, h2, un = (os.path.join(outdir, n) for n in ("h1.bam", "h2.bam", "un.bam"))
            hist = os.path.join(outdir, "hist.tsv")
            return ["split", "--output-h1", h1, "--output-h2", h2, "--output-untagged", un, "--read-lengths-histogram", hist, sim.bams[0], lst], [h1, h2, un, hist]

        return make, samples, variants
    if kind.startswith("polyphase"):
        p = {"ploidy": rng.choice([3, 4]), "n_chrom": 1, "chrom_len": 4000, "n_var": 24, "samples": ["zeta", "alpha"], "depth": 6, "read_len": (150, 500),
             "error_rate": 0.02, "coverage_gaps": 3, "collapse": 0.3}
        mode = kind.partition("_")[2] or "plain"
        if mode == "allhet":
            # one sample heterozygous everywhere whose reads reach only part of the contig, the other covered everywhere
            first = rng.choice(p["samples"])
            p["all_het_samples"] = [first]
            p["read_window"] = {first: (0, rng.choice([1500, 2500]))}
        sim = genome.simulate_poly(rng, tmp, p)
        vcf_in = sim.vcf
        more = []
        if mode == "prephased":
            # a partial pre-phasing in the input (some heterozygous variants left unphased), used with --use-prephasing
            doc, _ = genome.truth_phased_doc_poly(sim, rng, block_len=(4, 12))
            raw = rng.choice([None, 0, 1])  # optionally one sample without any pre-phasing next to a pre-phased one
            for r in doc.records:
                for ci, call in enumerate(r["calls"]):
                    if "|" in call["GT"] and (ci == raw or rng.random() < 0.4):
                        call["GT"] = "/".join(sorted(call["GT"].split("|")))
                        call["PS"] = "."
            vcf_in = os.path.join(tmp, "prephased.vcf")
            doc.write(vcf_in)
            more = ["--use-prephasing"]
        variants = variants + [("t2d%d" % k, {"PYTHONHASHSEED": "0", "WV_DELAY_SEED": str(k)}, ["--threads", "2"]) for k in range(2)]
        variants += [("t3d%d" % k, {"PYTHONHASHSEED": "1", "WV_DELAY_SEED": str(10 + k)}, ["--threads", "3"]) for k in range(2)]

        bcs = rng.choice([5, 5, 4, 2])

        def make(outdir):
            out = os.path.join(outdir, "out.vcf")
            return ["polyphase", "--ploidy", str(p["ploidy"]), "--reference", sim.fasta, "-o", out, "-B", str(bcs)] + more + [vcf_in, sim.bams[0]], [out]

        return make, p["samples"], variants
    if kind in ("compare", "stats", "unphase"):
        samples = ["zeta"]
        p = {"n_chrom": 2, "chrom_len": 3000, "n_var": 20, "kinds": ["snv", "ins"], "samples": samples, "depth": 1, "read_len": (100, 200), "het_prob": 0.9}
        sim = genome.simulate(rng, tmp, p)
        d1, _ = genome.truth_phased_doc(sim, rng, tag="PS", block_len=(2, 7), interleave=True)
        d2, _ = genome.truth_phased_doc(sim, rng, tag="PS", block_len=(3, 9))
        d2.samples = ["other"]
        d3, _ = genome.truth_phased_doc(sim, rng, tag="PS", block_len=(2, 5))
        d3.samples = ["NA_third"]
        f1, f2, f3 = os.path.join(tmp, "a.vcf"), os.path.join(tmp, "b.vcf"), os.path.join(tmp, "c.vcf")
        d1.write(f1)
        d2.write(f2)
        d3.write(f3)
        three = rng.random() < 0.5
        if kind == "stats" and rng.random() < 0.5:
            # phase sets with names (PS declared as String, as 10x / GIAB files do)
            d1.meta = [m.replace("ID=PS,Number=1,Type=Integer", "ID=PS,Number=1,Type=String") for m in d1.meta]
            for r in d1.records:
                for call in r["calls"]:
                    if call.get("PS", ".") not in (".", None):
                        call["PS"] = "set_%s_%s" % (r["chrom"], call["PS"])
            d1.write(f1)

        def make(outdir):
            if kind == "compare":
                if not three:
                    outs = [os.path.join(outdir, n) for n in ("pair.tsv", "longest.tsv", "sw.bed")]
                    return ["compare", "--ignore-sample-name", "--tsv-pairwise", outs[0], "--longest-block-tsv", outs[1], "--switch-error-bed", outs[2], f1, f2], outs
                outs = [os.path.join(outdir, n) for n in ("pair.tsv", "multi.tsv", "sw.bed")]
                return ["compare", "--ignore-sample-name", "--tsv-pairwise", outs[0], "--tsv-multiway", outs[1], "--switch-error-bed", outs[2], f1, f2, f3], outs
            if kind == "stats":
                outs = [os.path.join(outdir, n) for n in ("stats.tsv", "blocks.tsv", "blocks.gtf")]
                return ["stats", "--tsv", outs[0], "--block-list", outs[1], "--gtf", outs[2], f1], outs
            return ["unphase", f1], ["STDOUT"]

        return make, ["zeta", "other", "chr1", "chr2"], variants
    if kind == "hapcut2vcf":
        def make(outdir):
            out = os.path.join(outdir, "out.vcf")
            return ["hapcut2vcf", "-o", out, os.path.join(repo, "tests/data/pacbio/variants.vcf"), os.path.join(repo, "tests/data/pacbio/hapcut.txt")], [out]

        return make, ["a", "b", "c", "d"], variants
    if kind == "find_snv":
        def make(outdir):
            out = os.path.join(outdir, "out.vcf")
            return ["find_snv_candidates", "--pacbio", "-o", out, os.path.join(repo, "tests/data/pacbio/reference.fasta"), os.path.join(repo, "tests/data/pacbio/pacbio.bam")], [out]

        return make, ["a", "b", "c", "d"], variants
    if kind in ("learn", "learn_repo"):
        # `learn` keeps its state in native code (src/caller.cpp). Besides hash seeds, the heap contents are varied: glibc's
        # MALLOC_PERTURB_ fills fresh and freed blocks with a byte pattern, and one run is made under valgrind memcheck.
        variants = variants[:3] + [("perturb%d" % b, {"PYTHONHASHSEED": "0", "PYTHONMALLOC": "malloc", "MALLOC_PERTURB_": str(b)}, []) for b in (85, 170, 255)]
        variants.append(("vg", {"PYTHONHASHSEED": "0", "WV_VGLOG": os.path.join(tmp, "vg.log")}, []))
        if kind == "learn_repo":
            d = os.path.join(repo, "tests/data/short-genome/learn-data")
            fasta, bam, vcf = (os.path.join(d, n) for n in ("short_ref.fasta", "short-reads.bam", "variant.vcf"))
        else:
            nv = rng.choice([0, 1, 1, 2, 3, 5])
            p = {"n_chrom": 1, "chrom_len": rng.choice([600, 1200]), "n_var": max(nv, 1), "kinds": ["snv"], "samples": ["zeta"], "depth": rng.choice([3, 6]),
                 "read_len": (80, 300), "error_rate": 0.03, "het_prob": 1.0}
            sim = genome.simulate(rng, tmp, p)
            if nv == 0:
                sim.doc.records = []
                sim.doc.write(sim.vcf)
            fasta, bam, vcf = sim.fasta, sim.bams[0], sim.vcf
            if rng.random() < 0.6:
                # one read whose aligned part is shorter than k (an adapter-trimmed or mostly soft-clipped read)
                import pysam

                src = pysam.AlignmentFile(bam)
                hdr = src.header.to_dict()
                recs = list(src)
                src.close()
                a = pysam.AlignedSegment(pysam.AlignmentHeader.from_dict(hdr))
                a.query_name = "tiny"
                a.reference_id = 0
                a.reference_start = recs[len(recs) // 2].reference_start
                a.mapping_quality = 60
                a.flag = 0
                if rng.random() < 0.5:
                    a.cigartuples = [(0, 4)]
                    a.query_sequence = "ACGT"
                    a.query_qualities = pysam.qualitystring_to_array("IIII")
                else:
                    a.cigartuples = [(0, 3), (4, 40)]
                    a.query_sequence = "ACG" + "T" * 40
                    a.query_qualities = pysam.qualitystring_to_array("I" * 43)
                a.set_tag("RG", recs[0].get_tag("RG"))
                recs.insert(len(recs) // 2, a)
                bam = os.path.join(tmp, "with_short_read.bam")
                with pysam.AlignmentFile(bam, "wb", header=hdr) as out:
                    for x in recs:
                        out.write(pysam.AlignedSegment.fromstring(x.to_string(), out.header))
                pysam.index(bam)
        kk, ww = rng.choice([(7, 25), (5, 10), (9, 25), (7, 0)])

        def make(outdir):
            out = os.path.join(outdir, "out.txt")
            return ["learn", "--reference", fasta, "-k", str(kk), "--window", str(ww), "-o", out, bam, vcf], [out]

        return make, ["a", "b", "c", "d"], variants
    if kind == "polyphasegenetic":
        def make(outdir):
            out = os.path.join(outdir, "out.vcf")
            return ["polyphasegenetic", "--ploidy", "4", "-o", out, "-P", os.path.join(repo, "tests/data/polyphasegenetic.test.progeny.vcf.gz"),
                    os.path.join(repo, "tests/data/polyphasegenetic.test.parents.vcf"), os.path.join(repo, "tests/data/polyphasegenetic.ped1.txt")], [out]

        return make, ["Parent_A", "Parent_B", "p1", "p2", "p3"], variants[:4]
    raise KeyError(kind)


def run_case(idx, rng, tier, lane):
    counters = {}
    keys = set()
    viol = []
    kind = KINDS[idx % len(KINDS)]
    if lane == "poly":
        # many polyphase inputs with a slim sweep each (hash seeds 0-5 for the sample order, 1/2/3 worker processes)
        kind = ["polyphase_prephased", "polyphase_allhet", "polyphase"][idx % 3]
    tmp = tempfile.mkdtemp(prefix="c16-", dir=os.environ.get("WV_SCRATCH"))
    sample = {"subcommand": kind}
    try:
        make, probe_names, variants = build_input(kind, rng, tmp)
        if lane == "poly":
            variants = [v for v in variants if v[0] in ("hs0#0", "hs1#1", "hs2#2", "hs3#3", "t2d0", "t3d0")]
            variants += [("hs%d" % k, {"PYTHONHASHSEED": str(k)}, []) for k in (4, 5)]
        if tier == "thorough" and lane == "plain" and idx < len(KINDS) and kind in ("phase", "phase_quartet", "genotype", "polyphase", "haplotag", "haplotagphase", "find_snv", "compare") \
                and not any(v[0] == "vg" for v in variants):
            # once per native-heavy subcommand: the same run under valgrind memcheck (a repository frame that uses uninitialised
            # memory means the result is a function of heap garbage)
            variants = list(variants) + [("vg", {"PYTHONHASHSEED": "0", "WV_VGLOG": os.path.join(tmp, "vg.log")}, [])]
        probe_out = os.path.join(tmp, "probe.jsonl")
        results = {}
        first_outdir = None
        for label, env, extra in variants:
            outdir = os.path.join(tmp, "run_" + label.replace("#", "_"))
            os.makedirs(outdir)
            args, outs = make(outdir)
            if label == "repeat" and first_outdir:
                # a repeated execution with the same output paths: the files of the first run are already there
                for fn in os.listdir(first_outdir):
                    shutil.copy(os.path.join(first_outdir, fn), os.path.join(outdir, fn))
            first_outdir = first_outdir or outdir
            env = dict(env)
            env["WV_PROBE"] = ",".join(probe_names)
            # `learn` finishes within seconds on these inputs (a minute under valgrind): a generous bound per run
            rc, stdout, err = run_cmd(args[:1] + extra + args[1:], env, probe_out, timeout=(120 if kind.startswith("learn") else 600))
            counters["subprocess_runs"] = counters.get("subprocess_runs", 0) + 1
            vglog = env.get("WV_VGLOG")
            if vglog:
                from wv import sanlog

                counters["valgrind_runs"] = counters.get("valgrind_runs", 0) + 1
                text = open(vglog).read() if os.path.exists(vglog) else ""
                reps = sanlog.parse_valgrind(text)
                counters["vg_thirdparty_reports"] = counters.get("vg_thirdparty_reports", 0) + sum(1 for r in reps if not r["repo"])
                mine = [r for r in reps if r["repo"]]
                counters["vg_repo_reports"] = counters.get("vg_repo_reports", 0) + len(mine)
                seen_k = set()
                for r in mine:
                    k = "uninitialised-memory-decides-result:%s:%s:%s" % (kind.split("_")[0], r["kind"], r["frame"])
                    if k not in seen_k:
                        seen_k.add(k)
                        viol.append({"mech": k, "msg": "%s under valgrind memcheck: %s" % (kind, r["text"][:1500])})
            if rc == -999:
                viol.append({"mech": "no-result-within-bound:" + kind, "msg": "%s under %s: %s (other runs of this input take seconds)" % (" ".join(args[:3]), label, err)})
                break
            if rc != 0 and kind in ALGO_KINDS:
                results[label] = {"__exit__": "failed"}
                continue
            if rc != 0:
                viol.append({"mech": "nonzero-exit:" + kind, "msg": "%s exited %d under %s: %s" % (" ".join(args[:3]), rc, label, err[-600:])})
                break
            contents = {"__exit__": "ok"} if kind in ALGO_KINDS else {}
            for o in outs:
                name = os.path.basename(o)
                if o == "STDOUT":
                    contents["stdout"] = "".join(l for l in stdout.decode().splitlines(True) if not l.startswith("##commandline"))
                elif o.endswith(".bam"):
                    contents[name] = norm_bam(o)
                else:
                    contents[name] = norm_text(o)
            results[label] = contents
        if results and not any(v["mech"].startswith(("nonzero-exit", "no-result")) for v in viol):
            labels = list(results)
            base = results[labels[0]]
            if kind in ALGO_KINDS and all(r["__exit__"] == "failed" for r in results.values()):
                counters["algo_refused_inputs:" + kind] = counters.get("algo_refused_inputs:" + kind, 0) + 1
            counters["inputs_compared"] = counters.get("inputs_compared", 0) + 1
            for lb in labels[1:]:
                if lb == "vg" and kind == "genotype":
                    # valgrind computes x87 long double arithmetic in 64 bits: the genotype likelihoods differ in the 6th digit under
                    # it by construction; for this subcommand only the memcheck reports of the run are judged
                    counters["vg_output_comparisons_skipped_long_double"] = counters.get("vg_output_comparisons_skipped_long_double", 0) + 1
                    continue
                for name, content in base.items():
                    counters["outputs_compared"] = counters.get("outputs_compared", 0) + 1
                    other = results[lb].get(name)
                    if other != content:
                        a, b = content.splitlines(), (other or "").splitlines()
                        k = next((i for i, (x, y) in enumerate(zip(a, b)) if x != y), min(len(a), len(b)))
                        viol.append({"mech": "output-differs:%s:%s" % (kind, name), "msg": "%s: %s differs between %s and %s at line %d: %r vs %r" % (
                            kind, name, labels[0], lb, k, a[k][:150] if k < len(a) else None, b[k][:150] if k < len(b) else None)})
                        break
            orders = set()
            blocks = {}
            cur = []
            if os.path.exists(probe_out):
                for l in open(probe_out):
                    d = json.loads(l)
                    if "order" in d:
                        orders.add(tuple(d["order"]))
                        if cur:
                            blocks[len(blocks)] = tuple(cur)
                            cur = []
                    elif "block_done" in d:
                        cur.append(d["block_done"])
                if cur:
                    blocks[len(blocks)] = tuple(cur)
            counters["distinct_probe_orders_seen"] = counters.get("distinct_probe_orders_seen", 0) + len(orders)
            border = {b for b in blocks.values() if len(b) > 1}
            counters["distinct_block_completion_orders_seen"] = counters.get("distinct_block_completion_orders_seen", 0) + len(border)
            nonempty = all(len(c) > 0 for c in base.values()) and base.get("__exit__") != "failed"
            if (len(orders) >= 2 or len(border) >= 2) and nonempty:
                keys.add(kind + ":" + hashlib.sha1(json.dumps(base, sort_keys=True).encode()).hexdigest()[:12])
            sample = {"subcommand": kind, "runs": labels, "distinct_probe_orders": len(orders), "distinct_block_orders": len(border), "outputs": sorted(base)}
            counters["kind_" + kind] = 1
    finally:
        shutil.rmtree(tmp, ignore_errors=True)
    seen = set()
    uniq = [x for x in viol if not (x["mech"] in seen or seen.add(x["mech"]))]
    return {"nontrivial": bool(keys), "key": sorted(keys), "violations": uniq, "counters": counters, "sample": sample, "case": None}
