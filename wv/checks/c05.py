"""C05 — pedigree phasing is Mendelian-consistent and ordered paternal|maternal."""
import hashlib
import json
import os
import shutil
import tempfile

from wv import launch, pipeline
from wv.gen import genome
from wv.oracle import vcftext

ID = "C05"
LEVEL = "exploration"
RULE = (
    "G-genome pedigrees: trio and two-child quartet (plus optional unrelated sample and a second family in the same PED), true "
    "haplotypes transmitted with simulated recombination, VCF genotypes perturbed per call (random genotype -> Mendelian conflicts, "
    "./. -> missing) so that all 27/81 genotype combinations incl. conflicting and missing ones occur; read support none for some "
    "members / sparse / deep, error-free or 2% errors; --recombrate 0.01..50, --genmap, --no-genetic-haplotyping, both tags. Oracle "
    "O-mendel on the output VCF (own parser/decoders): phased child a|b has a among the father's and b among the mother's alleles; "
    "variants with a conflict or a missing genotype in the family carry no phase statement in any member; by default a child-het "
    "variant with a homozygous parent (no conflict, nothing missing) is phased in the child; from the interposed trace: where parent "
    "and child are phased in one set, child allele == allele on the parental haplotype selected by the reported transmission value "
    "(value v selects haplotype 1-v; father = t mod 2, mother = t div 2, trio k = base-4 digit k). Non-trivial: a family-variant "
    "with child het and >=1 parent het that is phased, or a conflict/missing case, or a read-free genetic-phasing case; distinct by "
    "hash of run description."
)
REQUIRED_COUNTERS = ["runs_ok", "child_calls_membership_checked", "transmission_checks", "excluded_variants_checked", "readfree_rule_checked"]
ASSUMPTIONS = ["trusted genotypes (no --distrust-genotypes), as the statement says"]
WATCHDOG = {"quick": 300, "thorough": 900}


def lanes(tier):
    return [("plain", "plain", 240 if tier == "quick" else 4000)]


def gen_params(rng):
    mode = rng.choice(["trio", "trio", "quartet", "trio_plus", "two_trios"])
    if mode == "trio":
        samples, ped = ["dad", "mom", "kid"], [("dad", "mom", "kid")]
    elif mode == "quartet":
        kids = rng.choice([["kid1", "kid2"], ["zoe", "amy"], ["b_kid", "a_kid"]])
        samples, ped = ["dad", "mom"] + kids, [("dad", "mom", kids[0]), ("dad", "mom", kids[1])]
    elif mode == "trio_plus":
        samples, ped = ["dad", "mom", "kid", rng.choice(["loner", "aunt", "zed"])], [("dad", "mom", "kid")]
    else:
        samples = ["dadA", "momA", "kidA", "dadB", "momB", "kidB"]
        ped = [("dadA", "momA", "kidA"), ("dadB", "momB", "kidB")]
    rng.shuffle(samples)
    support = rng.choice(["all", "all", "parents_only", "one", "sparse"])
    if support == "all" or support == "sparse":
        rs = list(samples)
    elif support == "parents_only":
        children = {c for _, _, c in ped}
        rs = [s for s in samples if s not in children]
    else:
        rs = [rng.choice(samples)]
    p = {
        "n_chrom": rng.choice([1, 1, 2]),
        "chrom_len": 2500,
        "n_var": rng.randint(6, 22),
        "pos1_prob": 0.15,
        "kinds": ["snv"],
        "samples": samples,
        "pedigree": ped,
        "read_samples": rs,
        "recomb_prob": rng.choice([0.0, 0.0, 0.1]),
        "depth": 1 if support == "sparse" else rng.choice([2, 6, 15]),
        "read_len": (150, 800),
        "end_policy": "clean",
        "error_rate": rng.choice([0.0, 0.0, 0.02]),
        "het_prob": rng.choice([0.5, 0.7]),
        "gt_noise": rng.choice([(0.0, 0.0), (0.1, 0.05), (0.3, 0.1)]),
        "unsorted_gt": rng.choice([0.0, 0.0, 0.3]),  # heterozygous calls written 1/0
    }
    opts = {"reference": False, "tag": rng.choice(["PS", "HP"]), "max_coverage": rng.choice([6, 15])}
    if rng.random() < 0.25:
        opts["genetic_haplotyping"] = False
    if rng.random() < 0.3:
        opts["via_cli"] = True  # through whatshap's argument parser and main(): the defaults a user gets
    r = rng.random()
    if r < 0.3:
        opts["recombrate"] = rng.choice([0.01, 1.26, 50.0])
    elif r < 0.45 and p["n_chrom"] == 1:
        opts["genmap"] = True
    return p, opts


def judge_mendel(sim, trace, text, opts, counters):
    viol = []
    meta, samples, recs = vcftext.parse(text)
    si = {s: k for k, s in enumerate(samples)}
    default_cfg = opts.get("genetic_haplotyping", True)
    # decoded phase per (sample, chrom, pos)
    dec = {}
    for r in recs:
        for s in samples:
            d = vcftext.decode_call(r["calls"][si[s]])
            if d is not None:
                dec[(s, r["chrom"], r["pos"])] = (d[1], d[2])
    insts = {(i["chromosome"], tuple(i["family"])): i for i in trace["instances"] if "transmission" in i}
    families = {}
    for f, m, c in sim.pedigree:
        families.setdefault((f, m), []).append(c)
    for (f, m), kids in families.items():
        fam = {f, m} | set(kids)
        trios = [(f, m, c) for c in kids]
        for chrom in sim.chroms:
            cls = pipeline.family_genotype_classes(sim.doc, chrom, sorted(fam), trios)
            inst = None
            for (c2, famt), i in insts.items():
                if c2 == chrom and set(famt) == fam:
                    inst = i
            for r in recs:
                if r["chrom"] != chrom or len(r["alts"]) != 1:
                    continue
                kind, hom = cls.get(r["pos"] - 1, ("?", False))
                gts = {}
                for s in fam:
                    al, _ = vcftext.split_gt(r["calls"][si[s]].get("GT"))
                    gts[s] = al
                if kind in ("conflict", "missing"):
                    counters["excluded_variants_checked"] = counters.get("excluded_variants_checked", 0) + 1
                    counters["excluded_" + kind] = counters.get("excluded_" + kind, 0) + 1
                    for s in fam:
                        if (s, chrom, r["pos"]) in dec:
                            viol.append({"mech": "phased-despite-" + kind, "msg": "%s:%d has a %s in family %s but %s is phased %r (genotypes %r)" % (chrom, r["pos"], kind, sorted(fam), s, dec[(s, chrom, r["pos"])], gts)})
                    continue
                if kind != "retained":
                    continue
                for c in kids:
                    d = dec.get((c, chrom, r["pos"]))
                    child_het = gts[c] is not None and "." not in gts[c] and len(set(gts[c])) > 1
                    par_hom = any(len(set(gts[x])) == 1 for x in (f, m))
                    if d is None:
                        if default_cfg and child_het and par_hom:
                            counters["readfree_rule_checked"] = counters.get("readfree_rule_checked", 0) + 1
                            viol.append({"mech": "genetic-phasing-missing", "msg": "%s:%d child %s is heterozygous with a homozygous parent (genotypes %r), no conflict, nothing missing, but is left unphased" % (chrom, r["pos"], c, gts)})
                        continue
                    if default_cfg and child_het and par_hom:
                        counters["readfree_rule_checked"] = counters.get("readfree_rule_checked", 0) + 1
                    block, al = d
                    a, b = al
                    counters["child_calls_membership_checked"] = counters.get("child_calls_membership_checked", 0) + 1
                    if a not in gts[f] or b not in gts[m]:
                        viol.append({"mech": "child-not-paternal|maternal", "msg": "%s:%d child %s phased %s|%s but father has %r and mother %r" % (chrom, r["pos"], c, a, b, gts[f], gts[m])})
                    # transmission-selected haplotype
                    if inst is not None and (r["pos"] - 1) in inst["positions"]:
                        col = inst["positions"].index(r["pos"] - 1)
                        tri = [t[2] for t in inst["trios"]].index(c)
                        tk = (inst["transmission"][col] // (4**tri)) % 4
                        for parent, bit, child_allele, who in ((f, tk % 2, a, "father"), (m, tk // 2, b, "mother")):
                            dp = dec.get((parent, chrom, r["pos"]))
                            if dp is None or dp[0] != block:
                                continue
                            counters["transmission_checks"] = counters.get("transmission_checks", 0) + 1
                            if dp[1][1 - bit] != child_allele:
                                viol.append({"mech": "transmission-mismatch", "msg": "%s:%d child %s allele from %s is %s, but transmission value %d selects %s haplotype %d of %r" % (chrom, r["pos"], c, who, child_allele, tk, who, 1 - bit, dp[1])})
    return viol


def judge_recomb_list(trace, path, counters):
    """Every line of --recombination-list must report, for both parents, the transmitted haplotypes that the solver's
    transmission vector gives at the two positions."""
    viol = []
    if not os.path.exists(path):
        return viol
    insts = [i for i in trace["instances"] if "transmission" in i and i["trios"]]
    with open(path) as fh:
        lines = [l.rstrip("\n") for l in fh][1:]
    listed = set()
    for l in lines:
        f = l.split(" ")
        listed.add((f[0], f[1], int(f[2]) - 1, int(f[3]) - 1))
    # completeness: the list is how the transmission is reported to the user. Wherever the solver's transmission value of a child
    # changes between two consecutive variants of one phase set, an event must be listed - except between the first two variants
    # of a set, which whatshap never reports (find_recombination starts at the third variant; recorded in DESIGN 8.5 as an
    # observation, the statement does not settle it)
    last = {}
    for i in insts:
        last[(i["chromosome"], tuple(i["family"]))] = i
    for i in last.values():
        comps = i.get("components") or {}
        pos = i["positions"]
        if not comps or len(i["transmission"]) != len(pos):
            continue
        blocks = {}
        for q in pos:
            if comps.get(q) is not None:
                blocks.setdefault(comps[q], []).append(q)
        for tri, t in enumerate(i["trios"]):
            for blk in blocks.values():
                for j in range(2, len(blk)):
                    ta = (i["transmission"][pos.index(blk[j - 1])] // (4**tri)) % 4
                    tb = (i["transmission"][pos.index(blk[j])] // (4**tri)) % 4
                    counters["recomb_list_adjacent_pairs_checked"] = counters.get("recomb_list_adjacent_pairs_checked", 0) + 1
                    if ta != tb and (t[2], i["chromosome"], blk[j - 1], blk[j]) not in listed:
                        viol.append({"mech": "recomb-list-misses-transmission-change", "msg": "child %s %s: the solver's transmission value changes %d -> %d between %d and %d (consecutive variants of phase set %d, not its first pair), no such line in the recombination list"
                                     % (t[2], i["chromosome"], ta, tb, blk[j - 1] + 1, blk[j] + 1, min(blk) + 1)})
    for l in lines:
        f = l.split(" ")
        child, chrom, p1, p2 = f[0], f[1], int(f[2]) - 1, int(f[3]) - 1
        hf1, hf2, hm1, hm2 = (int(x) for x in f[4:8])
        inst = [i for i in insts if i["chromosome"] == chrom and child in [t[2] for t in i["trios"]]]
        if not inst:
            continue
        i = inst[-1]
        tri = [t[2] for t in i["trios"]].index(child)
        pos = i["positions"]
        if p1 not in pos or p2 not in pos:
            viol.append({"mech": "recomb-list-unknown-position", "msg": "recombination listed at %s:%d-%d, not solver columns" % (chrom, p1 + 1, p2 + 1)})
            continue
        t1 = (i["transmission"][pos.index(p1)] // (4**tri)) % 4
        t2 = (i["transmission"][pos.index(p2)] // (4**tri)) % 4
        counters["recomb_list_lines_checked"] = counters.get("recomb_list_lines_checked", 0) + 1
        if (hf1, hf2, hm1, hm2) != (t1 % 2, t2 % 2, t1 // 2, t2 // 2):
            viol.append({"mech": "recomb-list-transmission", "msg": "recombination list says child %s %s:%d-%d father %d->%d mother %d->%d; the solver's transmission values there are %d -> %d (father %d->%d, mother %d->%d)"
                         % (child, chrom, p1 + 1, p2 + 1, hf1, hf2, hm1, hm2, t1, t2, t1 % 2, t2 % 2, t1 // 2, t2 // 2)})
    return viol


def run_one(rng, counters):
    tmp = tempfile.mkdtemp(prefix="c05-", dir=os.environ.get("WV_SCRATCH"))
    try:
        p, opts = gen_params(rng)
        sim = genome.simulate(rng, tmp, p)
        if rng.random() < 0.3:
            # the input was phased before by another tool: any heterozygous call may carry '|' and a PS value - also at variants
            # with a Mendelian conflict or a missing genotype, which must come out unphased in all members
            sim.doc.meta.append('##FORMAT=<ID=PS,Number=1,Type=Integer,Description="Phase set identifier">')
            for r in sim.doc.records:
                r["fmt"] = r["fmt"] + ["PS"]
                for call in r["calls"]:
                    call["PS"] = "."
                    al = call["GT"].split("/")
                    if len(al) == 2 and "." not in al and al[0] != al[1] and rng.random() < 0.6:
                        if rng.random() < 0.5:
                            al.reverse()
                        call["GT"] = "|".join(al)
                        call["PS"] = str(rng.choice([17, 170, r["pos"]]))
            if len(sim.chroms) > 1 and rng.random() < 0.5:
                # a contig (chrM, a scaffold) on which every variant is excluded for every family: a member without genotype
                last = sim.chroms[-1]
                for r in sim.doc.records:
                    if r["chrom"] != last:
                        continue
                    for trio in sim.pedigree:
                        k = sim.doc.samples.index(rng.choice(trio))
                        r["calls"][k]["GT"] = "./."
                        r["calls"][k]["PS"] = "."
                opts["contig_without_usable_variants"] = last
            sim.doc.write(sim.vcf)
            opts["prephased_input"] = True
            counters["runs_with_prephased_input"] = counters.get("runs_with_prephased_input", 0) + 1
        ro = {k: v for k, v in opts.items() if k not in ("genmap", "prephased_input", "contig_without_usable_variants")}
        ro["ped"] = sim.ped
        if opts.get("genmap"):
            gm = os.path.join(tmp, "genmap.txt")
            with open(gm, "w") as fh:
                fh.write("position COMBINED_rate(cM/Mb) Genetic_Map(cM)\n")
                cm = 0.0
                for pos in range(1, p["chrom_len"], 300):
                    cm += rng.choice([0.0, 0.001, 0.05])
                    fh.write("%d %.4f %.6f\n" % (pos, rng.random() * 5, cm))
            ro["genmap"] = gm
            if ro.get("via_cli"):
                ro["chromosomes"] = ["chr1"]  # the command line accepts --genmap only together with exactly one --chromosome
        out = os.path.join(tmp, "out.vcf")
        rl = os.path.join(tmp, "recomb.tsv")
        ro["recombination_list_filename"] = rl
        status, trace, msg = pipeline.run_phase(sim, out, **ro)
        desc = {"params": p, "options": opts}
        if status == "cle" and "No reads could be retrieved" in msg:
            return [], False, desc
        if status != "ok":
            return [pipeline.crash_violation(msg) if status == "crash" else {"mech": "unexpected-error", "msg": msg}], False, desc
        counters["runs_ok"] = counters.get("runs_ok", 0) + 1
        if opts.get("via_cli"):
            counters["runs_via_command_line"] = counters.get("runs_via_command_line", 0) + 1
        before = (counters.get("transmission_checks", 0), counters.get("excluded_variants_checked", 0), counters.get("readfree_rule_checked", 0))
        viol = judge_mendel(sim, trace, open(out).read(), opts, counters)
        viol += judge_recomb_list(trace, rl, counters)
        viol += pipeline.judge_witness(trace, counters, brute_limit=9)
        after = (counters.get("transmission_checks", 0), counters.get("excluded_variants_checked", 0), counters.get("readfree_rule_checked", 0))
        return viol, after != before, desc
    finally:
        shutil.rmtree(tmp, ignore_errors=True)


def run_case(idx, rng, tier, lane):
    counters = {}
    keys = set()
    viol = []
    sample = None
    for j in range(6):
        v, nt, desc = run_one(rng, counters)
        for x in v:
            x["data"] = desc
        viol += v
        if nt:
            keys.add(hashlib.sha1(json.dumps(desc, sort_keys=True, default=str).encode()).hexdigest()[:16])
        sample = {"options": desc["options"], "samples": desc["params"]["samples"], "reads_for": desc["params"]["read_samples"], "gt_noise": desc["params"]["gt_noise"]}
    seen = set()
    uniq = [x for x in viol if not (x["mech"] in seen or seen.add(x["mech"]))]
    return {"nontrivial": bool(keys), "key": sorted(keys), "violations": uniq, "counters": counters, "sample": sample, "case": None}
