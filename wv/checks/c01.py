"""C01 — PedigreeDPTable against brute-force (Ped)MEC with witness and tie contract."""
import hashlib
import itertools
import json

from wv.oracle import mec

ID = "C01"
LEVEL = "exploration"
RULE = (
    "G-matrix instances (single / 2-3 unrelated / trio in several index orders / quartet / three generations; trusted "
    "genotypes incl. homozygous, Mendel-inconsistent and malformed ones, or distrusted with integer phred triples; "
    "recombination vectors zero/uniform/mixed/large; weights 0..1000; explicit positions with read-free columns; gapped and "
    "nested reads; column counts 1..25 straddling floor(sqrt(n)) checkpoints) sorted by the real ReadSet.sort() and solved by "
    "whatshap.core.PedigreeDPTable; oracle = enumeration of all 2^R side vectors x Viterbi over transmissions. Checked: cost == "
    "optimum, re-costed returned witness == cost, unflagged allele == strict arg-min over admissible assignments of its column, "
    "'Mendelian conflict' raised iff infeasible, shapes. Thorough adds a bounded-exhaustive block (all multisets of <=3 reads "
    "over <=3 columns, alleles {0,1,-}, weights {1,2}, all-het and fixed-GL distrust). Lane 'big': instances beyond brute force "
    "(12-45 reads, up to 60 columns, <=13 active reads per column): the returned witness must re-cost to the reported cost and be "
    "1-optimal (no single read flip, no single-column transmission change is cheaper). Non-trivial: >=2 columns, a column with "
    ">=2 active reads, and optimum > 0 or a tie flag present; distinct by hash of the canonical instance."
)
EXHAUSTIVE = {"quick": False, "thorough": False}
REQUIRED_COUNTERS = ["solved", "cost_eq_optimum", "witness_recosted", "alleles_checked", "infeasible_agree", "big_instances", "big_flip_neighbours_checked"]
ASSUMPTIONS = [
    "weights/GL costs are integers and sums stay far below 2^32 (unsigned int cost arithmetic of the solver)",
    "R <= 12 (quick) / 16 (thorough) reads per brute-forced instance; larger instances only get the witness re-cost",
    "constructor preconditions respected: sorted read set, read ends among the given positions, one genotype per column",
]
WATCHDOG = {"quick": 180, "thorough": 900}

PER_CASE = 25


def lanes(tier):
    if tier == "quick":
        return [("plain", "plain", 1200), ("san", "san", 160), ("big", "plain", 64)]
    return [("plain", "plain", 12000), ("san", "san", 1600), ("exh", "plain", 400), ("big", "plain", 1200), ("bigsan", "san", 120), ("vg", "vg", 12)]


def solve_only(inst, counters):
    """The real solver without an oracle: the deciding monitor of the vg lane is valgrind memcheck (uninitialised values,
    invalid accesses in the native code), which the ASan/UBSan lanes cannot see."""
    from whatshap.core import PedigreeDPTable

    rs, ped, order = build_real(inst)
    positions = inst["positions"] if inst.get("explicit_positions", True) else None
    try:
        table = PedigreeDPTable(rs, inst["recomb"], ped, inst["distrust"], positions)
        cost = table.get_optimal_cost()
        superreads, tvec = table.get_super_reads()
        part = table.get_optimal_partitioning()
        alleles = [[v.allele for v in sr] for srs in superreads for sr in srs]
        counters["vg_alleles_read"] = counters.get("vg_alleles_read", 0) + sum(len(a) for a in alleles)
    except RuntimeError:
        counters["vg_infeasible"] = counters.get("vg_infeasible", 0) + 1
    counters["vg_solved"] = counters.get("vg_solved", 0) + 1


def gen_big(rng):
    """Instances beyond brute-force reach: 12-45 reads, up to 60 columns, at most 13 active reads per column."""
    kind = rng.choice(["single", "single", "unrelated2", "trio"])
    while True:
        inst = mec.random_instance(rng, kind, max_reads=rng.randint(12, 45), max_cols=rng.choice([12, 20, 30, 45, 60]))
        n = len(inst["positions"])
        if n < 6 or len(inst["reads"]) < 10:
            continue
        # thin out reads until no column has more than 13 active reads
        while True:
            worst = max(range(n), key=lambda c: len(mec.active_reads(inst, c)))
            act = mec.active_reads(inst, worst)
            if len(act) <= 13:
                break
            inst["reads"].pop(rng.choice(act))
        if len(inst["reads"]) >= 10:
            inst["explicit_positions"] = True  # reads were removed after the column list was derived
            return inst


def gen_deep(rng):
    """High-coverage instances (17-19 reads active in a column, the region above 2^16 table entries): single individual
    or two unrelated ones, 3-7 columns, reads copied from two hidden haplotypes with a few errors."""
    n = rng.randint(3, 7)
    positions = [10 * (i + 1) for i in range(n)]
    R = rng.randint(17, 19)
    n_ind = rng.choice([1, 1, 2])
    truth = [[[rng.randint(0, 1) for _ in range(n)] for _ in range(2)] for _ in range(n_ind)]
    reads = []
    for r in range(R):
        a = 0 if rng.random() < 0.8 else rng.randint(0, n - 2)
        b = n - 1 if rng.random() < 0.8 else rng.randint(a + 1, n - 1)
        ind, h = rng.randrange(n_ind), rng.randint(0, 1)
        vs = []
        for c in range(a, b + 1):
            if a < c < b and rng.random() < 0.1:
                continue
            al = truth[ind][h][c]
            if rng.random() < 0.15:
                al = 1 - al
            vs.append([positions[c], al, rng.randint(1, 9)])
        reads.append({"ind": ind, "vars": vs})
    return {"kind": "deep", "n_ind": n_ind, "triples": [], "positions": positions, "reads": reads,
            "genotypes": [[[0, 1]] * n for _ in range(n_ind)], "gls": None, "recomb": [0] * n, "distrust": False, "explicit_positions": True}


def check_big(inst, counters):
    """Necessary conditions for optimality on instances that cannot be brute-forced: witness re-costs to the reported
    cost; no single-read flip and no single-column transmission change of the witness is cheaper; the generator's hidden
    assignment is not cheaper."""
    from whatshap.core import PedigreeDPTable

    rs, ped, order = build_real(inst)
    sinst = dict(inst)
    sinst["reads"] = [inst["reads"][k] for k in order]
    positions = inst["positions"] if inst.get("explicit_positions", True) else None
    try:
        table = PedigreeDPTable(rs, inst["recomb"], ped, inst["distrust"], positions)
    except RuntimeError as e:
        if "Mendelian conflict" in str(e):
            tables, actives = mec.column_tables(sinst)
            if all(int(t.min()) < mec.INF for t in tables):
                raise Viol("feasibility", "solver raised 'Mendelian conflict' on a feasible big instance")
            counters["infeasible_agree"] = counters.get("infeasible_agree", 0) + 1
            return False
        raise Viol("solver-error", "PedigreeDPTable raised %r" % str(e))
    cost = table.get_optimal_cost()
    superreads, tvec = table.get_super_reads()
    part = table.get_optimal_partitioning()
    tables, actives = mec.column_tables(sinst)
    counters["big_instances"] = counters.get("big_instances", 0) + 1
    rc = mec.recost(sinst, part, tvec, tables, actives)
    if rc != cost:
        raise Viol("witness", "big instance: witness re-costs to %s, reported %d" % (rc, cost))
    nT = 4 ** len(inst["triples"])
    R = len(part)
    for i in range(R):
        p2 = list(part)
        p2[i] = 1 - p2[i]
        c2 = mec.recost(sinst, p2, tvec, tables, actives)
        counters["big_flip_neighbours_checked"] = counters.get("big_flip_neighbours_checked", 0) + 1
        if c2 < cost:
            raise Viol("cost", "big instance (%d reads, %d columns): flipping read %d of the returned partition costs %d < reported optimum %d" % (R, len(tvec), i, c2, cost))
    if nT > 1:
        for c in range(len(tvec)):
            for t in range(nT):
                if t == tvec[c]:
                    continue
                t2 = list(tvec)
                t2[c] = t
                c2 = mec.recost(sinst, part, t2, tables, actives)
                if c2 < cost:
                    raise Viol("cost", "big instance: changing the transmission value of column %d to %d costs %d < reported optimum %d" % (c, t, c2, cost))
        counters["big_transmission_neighbours_checked"] = counters.get("big_transmission_neighbours_checked", 0) + len(tvec) * (nT - 1)
    # a uniformly flipped partition has the same cost for founders-only instances (haplotype symmetry)
    if not inst["triples"]:
        c3 = mec.recost(sinst, [1 - x for x in part], tvec, tables, actives)
        if c3 != cost:
            raise Viol("cost", "big instance: complementary partition costs %d, partition %d" % (c3, cost))
    return True


class Viol(Exception):
    def __init__(self, mech, msg):
        Exception.__init__(self, msg)
        self.mech = mech


def build_real(inst):
    """Returns (readset sorted, pedigree, order) where order[i] = index into inst['reads'] of the i-th sorted read."""
    from whatshap.core import Genotype, NumericSampleIds, Pedigree, PhredGenotypeLikelihoods, Read, ReadSet

    nsi = NumericSampleIds()
    names = ["ind%d" % i for i in range(inst["n_ind"])]
    ids = [nsi[nm] for nm in names]
    rs = ReadSet()
    for k, rd in enumerate(inst["reads"]):
        r = Read("r%04d" % k, 50, 0, ids[rd["ind"]])
        for p, a, w in rd["vars"]:
            r.add_variant(p, a, w)
        rs.add(r)
    rs.sort()
    order = [int(r.name[1:]) for r in rs]
    ped = Pedigree(nsi)
    for i, nm in enumerate(names):
        gts = [Genotype(list(g)) for g in inst["genotypes"][i]]
        gls = None
        if inst["distrust"]:
            gls = [PhredGenotypeLikelihoods([float(x) for x in g]) for g in inst["gls"][i]]
        ped.add_individual(nm, gts, gls)
    for f, m, c in inst["triples"]:
        ped.add_relationship(names[f], names[m], names[c])
    return rs, ped, order


def check_instance(inst, counters, brute=True):
    """Runs the real solver on inst and compares with the oracle. Returns (nontrivial, info)."""
    from whatshap.core import PedigreeDPTable

    rs, ped, order = build_real(inst)
    sinst = dict(inst)
    sinst["reads"] = [inst["reads"][k] for k in order]
    n = len(inst["positions"])
    R = len(inst["reads"])
    positions = inst["positions"] if inst.get("explicit_positions", True) else None
    err = None
    try:
        table = PedigreeDPTable(rs, inst["recomb"], ped, inst["distrust"], positions)
        cost = table.get_optimal_cost()
        superreads, tvec = table.get_super_reads()
        part = table.get_optimal_partitioning()
    except RuntimeError as e:
        err = str(e)
    counters["solved"] = counters.get("solved", 0) + 1
    if brute:
        opt, tables, actives = mec.solve(sinst)
    else:
        tables, actives = mec.column_tables(sinst)
        opt = "skip"
    if err is not None:
        if "Mendelian conflict" not in err:
            raise Viol("solver-error", "PedigreeDPTable raised %r" % err)
        if opt is None:
            counters["infeasible_agree"] = counters.get("infeasible_agree", 0) + 1
            return False, {"infeasible": True}
        if opt == "skip":
            # feasibility is a per-column property: decide it from the column tables
            feas = all(int(t.min()) < mec.INF for t in tables)
            if not feas:
                counters["infeasible_agree"] = counters.get("infeasible_agree", 0) + 1
                return False, {"infeasible": True}
        raise Viol("feasibility", "solver raised 'Mendelian conflict' but the instance is feasible (optimum %s)" % opt)
    if opt is None:
        raise Viol("feasibility", "instance has no admissible assignment but the solver returned cost %r" % cost)
    if n == 0:
        if cost != 0:
            raise Viol("cost", "empty instance has cost %r" % cost)
        return False, {"empty": True}
    if opt != "skip":
        if cost != opt:
            raise Viol("cost", "reported cost %d, true optimum %d" % (cost, opt))
        counters["cost_eq_optimum"] = counters.get("cost_eq_optimum", 0) + 1
    # shapes
    if len(part) != R:
        raise Viol("shape", "partition has %d entries for %d reads" % (len(part), R))
    if len(tvec) != n:
        raise Viol("shape", "transmission vector has %d entries for %d columns" % (len(tvec), n))
    nT = 4 ** len(inst["triples"])
    if any(not (0 <= t < nT) for t in tvec):
        raise Viol("shape", "transmission value out of range: %r" % (tvec,))
    if any(p not in (0, 1) for p in part):
        raise Viol("shape", "partition values %r" % (part,))
    if len(superreads) != inst["n_ind"]:
        raise Viol("shape", "%d super-read sets for %d individuals" % (len(superreads), inst["n_ind"]))
    # reads that are active nowhere in the table (no column) cannot occur: every read has >= 2 positions among the columns
    rc = mec.recost(sinst, part, tvec, tables, actives)
    if rc != cost:
        raise Viol("witness", "returned partition %r / transmission %r re-cost to %s, reported cost %d" % (part, tvec, rc, cost))
    counters["witness_recosted"] = counters.get("witness_recosted", 0) + 1
    ties = 0
    for i in range(inst["n_ind"]):
        srs = list(superreads[i])
        if len(srs) != 2:
            raise Viol("shape", "individual %d has %d super-reads" % (i, len(srs)))
        for h in (0, 1):
            vs = list(srs[h])
            if [v.position for v in vs] != list(inst["positions"]):
                raise Viol("shape", "super-read positions %r != columns %r" % ([v.position for v in vs], inst["positions"]))
    for c in range(n):
        m = mec.allele_margins(sinst, c, part, tvec[c])
        for i in range(inst["n_ind"]):
            for h in (0, 1):
                al = list(superreads[i])[h][c].allele
                m0, m1 = m[i][h]
                if al == 3:
                    ties += 1
                    if m0 != m1:
                        counters["overflagged"] = counters.get("overflagged", 0) + 1
                    continue
                if al not in (0, 1):
                    raise Viol("tie-contract", "super-read allele %r at column %d" % (al, c))
                if not ((m0 < m1 and al == 0) or (m1 < m0 and al == 1)):
                    raise Viol(
                        "tie-contract",
                        "column %d individual %d haplotype %d: unflagged allele %d but best costs are allele0=%s allele1=%s"
                        % (c, i, h, al, m0, m1),
                    )
                counters["alleles_checked"] = counters.get("alleles_checked", 0) + 1
    counters["tie_flags_seen"] = counters.get("tie_flags_seen", 0) + ties
    nontrivial = n >= 2 and any(len(a) >= 2 for a in actives) and ((opt != "skip" and opt > 0) or cost > 0 or ties > 0)
    return nontrivial, {"cost": cost, "ties": ties}


def _key(inst):
    return hashlib.sha1(json.dumps(inst, sort_keys=True).encode()).hexdigest()[:16]


def _gen(rng, tier, lane):
    big = rng.random() < 0.2
    if big:
        # long thin instances straddling the sqrt checkpoint spacing
        kind = rng.choice(["single", "single", "trio", "unrelated2"])
        n = rng.choice([8, 9, 10, 15, 16, 17, 24, 25])
        inst = mec.random_instance(rng, kind, max_reads=8 if tier == "quick" else 11, max_cols=n)
        return inst
    kind = None
    maxr = 8 if tier == "quick" else rng.choice([8, 8, 10, 12])
    if lane == "san":
        maxr = min(maxr, 8)
    inst = mec.random_instance(rng, kind, max_reads=maxr, max_cols=rng.choice([2, 3, 4, 5, 6, 8, 9, 10]))
    if inst["kind"] in ("quartet", "threegen") and len(inst["reads"]) > 9:
        inst["reads"] = inst["reads"][:9]
        # the column list was derived from all reads: hand it to the solver explicitly, as `phase` does
        inst["explicit_positions"] = True
    if rng.random() < 0.12 and inst["reads"]:
        # reads covering a single variant (a legal sorted read set; `phase` drops them before, other callers need not)
        for rd in inst["reads"]:
            if rng.random() < 0.3:
                rd["vars"] = [rng.choice(rd["vars"])]
        inst["explicit_positions"] = True
        inst["single_variant_reads"] = True
    return inst


# ---------------- bounded exhaustive block


def _read_types(ncols, weights):
    pos = [10 * (i + 1) for i in range(ncols)]
    out = []
    for cov in itertools.product((None, 0, 1), repeat=ncols):
        idx = [i for i, a in enumerate(cov) if a is not None]
        if len(idx) < 2:
            continue
        for ws in itertools.product(weights, repeat=len(idx)):
            out.append([[pos[i], cov[i], w] for i, w in zip(idx, ws)])
    return out


def _exhaustive_cases(tier):
    """List of (ncols, nreads, weights, distrust) strata enumerated as multisets; split into chunks."""
    if tier == "quick":
        return [(2, 1, (1, 2)), (2, 2, (1, 2)), (3, 2, (1, 2)), (3, 3, (1,))]
    return [(2, 1, (1, 2)), (2, 2, (1, 2)), (2, 3, (1, 2)), (3, 1, (1, 2)), (3, 2, (1, 2)), (3, 3, (1, 2))]


def _run_exhaustive(idx, nchunks, tier, counters, keys):
    total = 0
    for ncols, nreads, weights in _exhaustive_cases(tier):
        types = _read_types(ncols, weights)
        pos = [10 * (i + 1) for i in range(ncols)]
        for k, combo in enumerate(itertools.combinations_with_replacement(range(len(types)), nreads)):
            if k % nchunks != idx:
                continue
            reads = [{"ind": 0, "vars": types[t]} for t in combo]
            used = sorted({p for r in reads for p, _, _ in r["vars"]})
            for distrust in (False, True):
                inst = {
                    "kind": "exh-single",
                    "n_ind": 1,
                    "triples": [],
                    "positions": pos,
                    "reads": reads,
                    "genotypes": [[[0, 1]] * ncols],
                    "gls": [[[2, 0, 3]] * ncols] if distrust else None,
                    "recomb": [0] * ncols,
                    "distrust": distrust,
                    "explicit_positions": True,
                }
                try:
                    nt, info = check_instance(inst, counters)
                except Viol as e:
                    e.inst = inst
                    raise
                total += 1
                if nt:
                    keys.add(_key(inst))
    counters["exhaustive_instances"] = counters.get("exhaustive_instances", 0) + total


def _run_trio_exhaustive(idx, nchunks, counters, keys):
    """All trio instances with one read per individual over 2 columns x all 27 genotype triples per column x recomb {0,1,5}."""
    gts = [[0, 0], [0, 1], [1, 1]]
    total = 0
    k = 0
    for g0 in itertools.product(gts, repeat=3):
        for g1 in itertools.product(gts, repeat=3):
            for rc in (0, 1, 5):
                k += 1
                if k % nchunks != idx:
                    continue
                for alle in itertools.product((0, 1), repeat=6):
                    if sum(alle) % 2 and alle[0]:  # thin the allele patterns by a fixed rule (half of them)
                        continue
                    reads = [
                        {"ind": i, "vars": [[10, alle[2 * i], 1 + i], [20, alle[2 * i + 1], 2]]} for i in range(3)
                    ]
                    inst = {
                        "kind": "exh-trio",
                        "n_ind": 3,
                        "triples": [[0, 1, 2]],
                        "positions": [10, 20],
                        "reads": reads,
                        "genotypes": [[g0[i], g1[i]] for i in range(3)],
                        "gls": None,
                        "recomb": [0, rc],
                        "distrust": False,
                        "explicit_positions": True,
                    }
                    try:
                        nt, info = check_instance(inst, counters)
                    except Viol as e:
                        e.inst = inst
                        raise
                    total += 1
                    if nt:
                        keys.add(_key(inst))
    counters["exhaustive_trio_instances"] = counters.get("exhaustive_trio_instances", 0) + total


def run_case(idx, rng, tier, lane):
    counters = {}
    keys = set()
    viol = []
    sample = None
    case = None
    try:
        if lane == "vg":
            for j in range(14):
                inst = gen_big(rng) if j % 7 == 6 else _gen(rng, tier, "san")
                solve_only(inst, counters)
                if len(inst["positions"]) >= 2:
                    keys.add(_key(inst))
                sample = {"kind": inst["kind"], "n_reads": len(inst["reads"]), "n_columns": len(inst["positions"]), "lane": "valgrind memcheck, no oracle"}
        elif lane in ("big", "bigsan"):
            for j in range(6 if lane == "big" else 3):
                inst = gen_deep(rng) if (j == 0 and idx % 2 == 0) else gen_big(rng)
                if inst["kind"] == "deep":
                    counters["deep_coverage_instances"] = counters.get("deep_coverage_instances", 0) + 1
                try:
                    ok = check_big(inst, counters)
                except Viol as e:
                    e.inst = inst
                    raise
                if ok:
                    keys.add(_key(inst))
                sample = {"kind": inst["kind"], "n_reads": len(inst["reads"]), "n_columns": len(inst["positions"]), "distrust": inst["distrust"]}
        elif lane == "exh":
            n = [x for l, f, x in lanes(tier) if l == "exh"][0]
            half = n // 2
            if idx < half:
                _run_exhaustive(idx, half, tier, counters, keys)
                sample = {"kind": "bounded-exhaustive single", "chunk": idx, "of": half, "instances": counters.get("exhaustive_instances")}
            else:
                _run_trio_exhaustive(idx - half, n - half, counters, keys)
                sample = {"kind": "bounded-exhaustive trio", "chunk": idx - half, "instances": counters.get("exhaustive_trio_instances")}
        else:
            if tier == "quick" and lane == "plain" and idx < 16:
                _run_exhaustive(idx, 16, tier, counters, keys)
            for _ in range(PER_CASE):
                inst = _gen(rng, tier, lane)
                R = len(inst["reads"])
                nT = 4 ** len(inst["triples"])
                brute = (1 << R) * nT * nT <= (1 << 22)
                try:
                    nt, info = check_instance(inst, counters, brute=brute)
                except Viol as e:
                    e.inst = inst
                    raise
                counters["kind_" + inst["kind"]] = counters.get("kind_" + inst["kind"], 0) + 1
                if inst["distrust"]:
                    counters["distrust_instances"] = counters.get("distrust_instances", 0) + 1
                if len(inst["positions"]) >= 9:
                    counters["checkpointed_instances(n>=9)"] = counters.get("checkpointed_instances(n>=9)", 0) + 1
                if nt:
                    keys.add(_key(inst))
                sample = {"instance": inst, "result": info}
    except Viol as e:
        case = getattr(e, "inst", None)
        viol.append({"mech": e.mech, "msg": str(e)[:2000], "data": case})
    return {
        "nontrivial": bool(keys),
        "key": sorted(keys),
        "violations": viol,
        "counters": counters,
        "sample": sample,
        "case": case,
    }
