"""C08 — genotyping reports the exact posterior of its HMM; GT, GL and GQ agree."""
import hashlib
import json
import math
import os
import shutil
import tempfile
import traceback

from wv.oracle import fb, mec, vcftext

ID = "C08"
LEVEL = "exploration"
RULE = (
    "(a) core: G-matrix instances (single / 2 unrelated / trio in several index orders / quartet; 1-9 reads with gaps and nesting "
    "over 1-10 columns incl. read-free columns and column counts straddling floor(sqrt(n)); phred weights 0 (the 0.9999 special "
    "case), 1-60, and 240-335 (beyond the precomputed table); recombination costs 0-100; priors uniform / skewed / near-degenerate given as probabilities exactly as "
    "cli/genotype.py passes them) through whatshap.core.GenotypeDPTable; oracle O-fb = enumeration of all 2^R global read-side "
    "vectors with a dense float64 forward-backward over (transmission, allele assignment); agreement within 1e-9 absolute. "
    "(a') deep: one individual with 11-16 reads active in every column (the default --max-coverage 15), 2-4 columns, gapped reads "
    "anywhere in the read order; oracle = the same model factorised over reads (sum over allele pairs per column, each read on "
    "either side with probability 1/2), cross-checked against the side-vector enumeration in setup_cmd. "
    "(b) pipeline: whatshap genotype (run_genotype in-process, GenotypeDPTable interposed) on simulated data with read errors, "
    "--gt-qual-threshold 0-50, --nopriors, --ped, --chromosome, constants; every output call of a processed chromosome: 10^GL sums "
    "to 1 (+-1e-3), GT = unique arg-max above the threshold else ./., GQ = phred of the remaining mass (+-1), and for accessible "
    "positions GL == log10 of what the core returned. Non-trivial: (a) an instance with >=2 columns and a column with >=2 active "
    "reads; (b) a run with >=1 call that is not ./.; distinct by instance / run hash."
)
REQUIRED_COUNTERS = ["deep_instances", "core_instances", "core_posteriors_compared", "pipeline_runs_ok", "calls_checked", "core_vs_vcf_checked", "rule_evaluations"]
ASSUMPTIONS = [
    "R <= 9 reads per brute-forced instance (2^R side vectors x dense forward-backward); 11-16 reads only for single individuals (factorised oracle)",
    "calls whose maximum is within 1e-4 of the threshold or of the runner-up are counted as borderline and not judged for GT",
]
WATCHDOG = {"quick": 400, "thorough": 1200}
TOL = 1e-9


def lanes(tier):
    if tier == "quick":
        return [("core", "plain", 160), ("deep", "plain", 32), ("coresan", "san", 32), ("pipe", "plain", 64), ("rule", "plain", 16)]
    return [("core", "plain", 3000), ("deep", "plain", 600), ("coresan", "san", 400), ("pipe", "plain", 1200), ("rule", "plain", 64), ("vg-coresan", "vg", 12)]


def run_rule(idx, rng, counters):
    """The GT decision rule itself (whatshap.cli.genotype.determine_genotype), on an exhaustive grid of likelihood
    triples with exact ties and on random triples: GT = unique maximum above the threshold, none otherwise."""
    from whatshap.cli.genotype import determine_genotype
    from whatshap.core import PhredGenotypeLikelihoods

    viol = []
    grid = [0.0, 0.1, 0.2, 0.25, 0.3, 1 / 3, 0.4, 0.5, 0.6, 0.75, 0.9, 1.0]
    triples = []
    for a in grid:
        for b in grid:
            c = 1.0 - a - b
            if c < -1e-12:
                continue
            triples.append((a, b, max(c, 0.0)))
    triples += [(0.5, 0.5, 0.0), (0.5, 0.0, 0.5), (0.0, 0.5, 0.5), (1 / 3, 1 / 3, 1 / 3), (0.25, 0.5, 0.25), (0.4, 0.4, 0.2), (0.2, 0.4, 0.4), (0.4, 0.2, 0.4)]
    for _ in range(300):
        x = [rng.random() for _ in range(3)]
        s_ = sum(x)
        triples.append(tuple(v / s_ for v in x))
    thresholds = [0.0, 0.3, 1 / 3, 0.5, 0.6, 0.9, 0.99, 1.0]
    for k, t in enumerate(triples):
        if k % 16 != idx % 16:
            continue
        for thr in thresholds:
            g = determine_genotype(PhredGenotypeLikelihoods(list(t)), thr)
            counters["rule_evaluations"] = counters.get("rule_evaluations", 0) + 1
            m = max(t)
            unique = sum(1 for v in t if v == m) == 1
            want = t.index(m) if (unique and m > thr) else None
            got = None if g.is_none() else g.get_index()
            if got != want:
                viol.append({"mech": "gt-rule", "msg": "determine_genotype(%r, threshold %.4f) = %r, rule gives %r" % (t, thr, got, want)})
                return viol, True
    return viol, True


def gen_core(rng, lane):
    kind = rng.choice(["single", "single", "unrelated2", "trio", "trio", "quartet"])
    maxr = {"single": 9, "unrelated2": 8, "trio": 7, "quartet": 5}[kind]
    if lane == "coresan":
        maxr = min(maxr, 6)
    while True:
        inst = mec.random_instance(rng, kind, max_reads=rng.randint(1, maxr), max_cols=rng.choice([1, 2, 3, 4, 5, 8, 9, 10]))
        if inst["positions"]:
            break
    n = len(inst["positions"])
    if rng.random() < 0.25:
        # reads that cover a single variant (a legal read set; `genotype` itself drops them, other callers of the table need not)
        for rd in inst["reads"]:
            if rng.random() < 0.3:
                rd["vars"] = [rng.choice(rd["vars"])]
        inst["single_variant_reads"] = True
        inst["explicit_positions"] = True  # the column set stays the one of the instance, whatever the shortened reads still cover
    heavy = rng.random() < 0.15  # weights beyond the precomputed phred table (>= 256), as re-aligned long indels get
    for rd in inst["reads"]:
        for v in rd["vars"]:
            if heavy:
                v[2] = rng.randint(240, 335)
            else:
                v[2] = rng.choice([0, 1, 3, 10, 20, 30, 45, 60]) if rng.random() < 0.8 else rng.randint(0, 60)
    inst["heavy_weights"] = heavy
    pm = rng.choice(["uniform", "skewed", "degenerate", "mixed"])
    priors = []
    for i in range(inst["n_ind"]):
        row = []
        for c in range(n):
            m = pm if pm != "mixed" else rng.choice(["uniform", "skewed", "degenerate"])
            if m == "uniform":
                p = [1 / 3, 1 / 3, 1 / 3]
            elif m == "skewed":
                p = [rng.random() + 0.05 for _ in range(3)]
            else:
                p = [1e-6, 1e-6, 1e-6]
                p[rng.randrange(3)] = 1.0
            s = sum(p)
            row.append([x / s for x in p])
        priors.append(row)
    inst["priors"] = priors
    inst["recomb"] = [rng.choice([0, 1, 5, 10, 30, 60, 100]) for _ in range(n)]
    return inst


def gen_deep(rng):
    """One individual at the coverage the command line allows by default (--max-coverage 15): 11-16 reads active in every column,
    2-4 columns, reads with internal gaps (mate pairs) anywhere in the read order. The table then walks 2^R bipartitions per
    column incrementally; the oracle is the factorised formulation (independent of R)."""
    n = rng.choice([2, 3, 3, 4])
    step = rng.choice([1, 10])
    positions = sorted(rng.sample(range(1, 1 + n * step * 2), n))
    R = rng.randint(11, 16)
    truth = [[rng.randint(0, 1) for _ in range(n)] for _ in range(2)]
    reads = []
    for r in range(R):
        full = rng.random() < 0.5
        if full or n == 2:
            cov = list(positions)
            if n > 2 and rng.random() < 0.5:
                cov = [positions[0]] + [p for p in positions[1:-1] if rng.random() < 0.5] + [positions[-1]]  # gapped, spans everything
        else:
            i0 = rng.randrange(0, n - 1)
            i1 = rng.randrange(i0 + 1, n)
            span = positions[i0 : i1 + 1]
            cov = [span[0]] + [p for p in span[1:-1] if rng.random() < 0.6] + [span[-1]]
        h = rng.randint(0, 1)
        vs = []
        for p in cov:
            a = truth[h][positions.index(p)]
            if rng.random() < 0.15:
                a = 1 - a
            vs.append([p, a, rng.choice([0, 1, 3, 10, 20, 30, 45, 60]) if rng.random() < 0.85 else rng.randint(240, 335)])
        reads.append({"ind": 0, "vars": vs})
    priors = [[]]
    for c in range(n):
        p = [rng.random() + 0.05 for _ in range(3)] if rng.random() < 0.6 else [1 / 3, 1 / 3, 1 / 3]
        z = sum(p)
        priors[0].append([x / z for x in p])
    return {"kind": "single-deep", "n_ind": 1, "triples": [], "positions": positions, "reads": reads, "priors": priors,
            "recomb": [rng.choice([0, 1, 10, 60]) for _ in range(n)], "explicit_positions": True}


def run_core(inst):
    from whatshap.core import Genotype, GenotypeDPTable, NumericSampleIds, Pedigree, PhredGenotypeLikelihoods, Read, ReadSet

    nsi = NumericSampleIds()
    names = ["ind%d" % i for i in range(inst["n_ind"])]
    ids = [nsi[nm] for nm in names]
    rs = ReadSet()
    for k, rd in enumerate(inst["reads"]):
        r = Read("r%04d" % k, 50, 0, ids[rd["ind"]])
        for p, a, w in rd["vars"]:
            r.add_variant(p, a, w)
        rs.add(r)
    rs.sort()
    ped = Pedigree(nsi)
    n = len(inst["positions"])
    for i, nm in enumerate(names):
        ped.add_individual(nm, [Genotype([]) for _ in range(n)], [PhredGenotypeLikelihoods(list(p)) for p in inst["priors"][i]])
    for f, m, c in inst["triples"]:
        ped.add_relationship(names[f], names[m], names[c])
    positions = inst["positions"] if inst.get("explicit_positions", True) else None
    table = GenotypeDPTable(nsi, rs, inst["recomb"], ped, positions)
    out = []
    for nm in names:
        out.append([[float(x) for x in table.get_genotype_likelihoods(nm, c)] for c in range(n)])
    return out


def check_core(inst, counters):
    viol = []
    try:
        got = run_core(inst)
    except Exception:
        tb = traceback.format_exc()
        return [{"mech": "core-crash:" + tb.strip().splitlines()[-1].split(":")[0], "msg": tb[-1200:]}], False
    if inst.get("kind") == "single-deep":
        exp = fb.posteriors_single_factorised(inst)
        counters["deep_instances"] = counters.get("deep_instances", 0) + 1
        counters["max_deep_active_reads"] = max(counters.get("max_deep_active_reads", 0), max(len(mec.active_reads(inst, c)) for c in range(len(inst["positions"]))))
    else:
        exp = fb.posteriors(inst)
    counters["core_instances"] = counters.get("core_instances", 0) + 1
    worst = 0.0
    for i in range(inst["n_ind"]):
        for c in range(len(inst["positions"])):
            if abs(sum(got[i][c]) - 1) > 1e-9:
                viol.append({"mech": "core-not-normalised", "msg": "individual %d column %d likelihoods %r do not sum to 1" % (i, c, got[i][c])})
            for g in range(3):
                d = abs(got[i][c][g] - exp[i][c][g])
                worst = max(worst, d)
                if d > TOL:
                    viol.append({"mech": "posterior-mismatch", "msg": "individual %d column %d genotype %d: core %.12g, plain forward-backward %.12g (diff %.3g)" % (i, c, g, got[i][c][g], exp[i][c][g], d)})
                    break
            counters["core_posteriors_compared"] = counters.get("core_posteriors_compared", 0) + 3
    counters["max_abs_diff_e15"] = max(counters.get("max_abs_diff_e15", 0), int(worst * 1e15))
    n = len(inst["positions"])
    nt = n >= 2 and any(len(mec.active_reads(inst, c)) >= 2 for c in range(n))
    return viol[:3], nt


# ------------------------------------------------------------------ pipeline

_CAP = {"tables": [], "installed": False}


def _install():
    if _CAP["installed"]:
        return
    import whatshap.cli.genotype as g

    Real = g.GenotypeDPTable

    class Traced:
        def __init__(self, numeric_sample_ids, all_reads, recombination_costs, pedigree, accessible_positions):
            self._t = Real(numeric_sample_ids, all_reads, recombination_costs, pedigree, accessible_positions)
            self.rec = {"positions": list(accessible_positions), "values": {}}
            _CAP["tables"].append(self.rec)

        def get_genotype_likelihoods(self, s, pos):
            r = self._t.get_genotype_likelihoods(s, pos)
            self.rec["values"][(s, self.rec["positions"][pos])] = [float(x) for x in r]
            return r

    g.GenotypeDPTable = Traced
    _CAP["installed"] = True


def run_pipe(rng, counters):
    from whatshap.cli import CommandLineError
    from whatshap.cli.genotype import run_genotype

    from wv.gen import genome

    _install()
    tmp = tempfile.mkdtemp(prefix="c08-", dir=os.environ.get("WV_SCRATCH"))
    try:
        mode = rng.choice(["single", "single", "multi", "trio"])
        if mode == "single":
            samples, ped = ["sampleA"], []
        elif mode == "multi":
            samples, ped = ["sampleA", "sampleB"], []
        else:
            samples, ped = ["dad", "mom", "kid"], [("dad", "mom", "kid")]
        p = {"n_chrom": rng.choice([1, 2]), "chrom_len": 2000, "n_var": rng.randint(4, 14), "kinds": ["snv"], "samples": samples, "pedigree": ped,
             "depth": rng.choice([3, 8, 15]), "read_len": (150, 600), "paired": rng.choice([0.0, 0.5]), "end_policy": "clean",
             "error_rate": rng.choice([0.0, 0.02, 0.05]), "het_prob": 0.6, "extra_vcf_samples": ["ghost"] if rng.random() < 0.2 else []}
        sim = genome.simulate(rng, tmp, p)
        thr = rng.choice([0, 0, 2, 6, 13, 30, 50])
        opts = {"gt_qual_threshold": thr, "nopriors": rng.random() < 0.3, "constant": rng.choice([0.0, 0.0, 0.1, 1])}
        if rng.random() < 0.2:
            opts["affine_gap"] = True  # allele weights from affine-gap re-alignment costs
        if ped:
            opts["ped"] = sim.ped
        if p["n_chrom"] > 1 and rng.random() < 0.4:
            opts["chromosomes"] = ["chr1"]
        if rng.random() < 0.3 and len(samples) > 1 and not ped:
            opts["samples"] = [samples[0]]
        out = os.path.join(tmp, "out.vcf")
        del _CAP["tables"][:]
        desc = {"params": p, "options": {k: (v if k != "ped" else True) for k, v in opts.items()}}
        try:
            run_genotype(phase_input_files=list(sim.bams), variant_file=sim.vcf, reference=sim.fasta, output=out, write_command_line_header=False, **opts)
        except CommandLineError as e:
            return [], False, desc
        except Exception:
            tb = traceback.format_exc()
            return [{"mech": "crash:" + tb.strip().splitlines()[-1].split(":")[0], "msg": "run_genotype raised: " + tb[-1200:]}], False, desc
        counters["pipeline_runs_ok"] = counters.get("pipeline_runs_ok", 0) + 1
        core = {}
        for t in _CAP["tables"]:
            core.update(t["values"])
        # chromosome of each captured position is not recorded; positions are unique per chromosome in a run of one
        # chromosome at a time: capture order follows chromosomes, so map by (sample, pos) within the processed chromosome list
        meta, vsamples, recs = vcftext.parse(open(out).read())
        gt_prob = 1.0 - 10 ** (-thr / 10.0)
        viol = []
        called = 0
        processed = set(opts.get("chromosomes") or sim.chroms)
        single_chrom_capture = len(processed) == 1
        for r in recs:
            if r["chrom"] not in processed or not r["alts"]:
                continue
            for si, s in enumerate(vsamples):
                call = r["calls"][si]
                counters["calls_checked"] = counters.get("calls_checked", 0) + 1
                try:
                    gl = [float(x) for x in call["GL"].split(",")]
                except (KeyError, ValueError):
                    viol.append({"mech": "gl-missing", "msg": "%s:%d %s has no GL: %r" % (r["chrom"], r["pos"], s, call)})
                    continue
                pr = [10**x for x in gl]
                if abs(sum(pr) - 1) > 1e-3:
                    viol.append({"mech": "gl-not-a-distribution", "msg": "%s:%d %s 10^GL sums to %.6f (%r)" % (r["chrom"], r["pos"], s, sum(pr), gl)})
                    continue
                srt = sorted(pr)
                gt = call.get("GT")
                borderline = abs(srt[2] - gt_prob) < 1e-4 or abs(srt[2] - srt[1]) < 1e-6
                exp_gt = None
                if srt[2] > srt[1] and srt[2] > gt_prob:
                    exp_gt = ["0/0", "0/1", "1/1"][pr.index(srt[2])]
                if not borderline:
                    if exp_gt is None and gt not in (".", "./."):
                        viol.append({"mech": "gt-despite-threshold", "msg": "%s:%d %s GT %s but max probability %.6f <= threshold %.6f or not unique (%r)" % (r["chrom"], r["pos"], s, gt, srt[2], gt_prob, pr)})
                    if exp_gt is not None and sorted((gt or "").split("/")) != sorted(exp_gt.split("/")):
                        viol.append({"mech": "gt-not-argmax", "msg": "%s:%d %s GT %s, arg-max of GL is %s (%r, threshold %.6f)" % (r["chrom"], r["pos"], s, gt, exp_gt, pr, gt_prob)})
                if gt in ("0/0", "0/1", "1/0", "1/1"):
                    called += 1
                    gi = sum(int(x) for x in gt.split("/"))
                    rest = sum(pr[k] for k in range(3) if k != gi)
                    gq = call.get("GQ")
                    want = 10000 if rest <= 0 else min(round(-10.0 * math.log10(max(rest, 1e-300))), 10000)
                    if gq in (None, "."):
                        viol.append({"mech": "gq-missing", "msg": "%s:%d %s GT %s without GQ" % (r["chrom"], r["pos"], s, gt)})
                    elif abs(int(gq) - want) > 1:
                        viol.append({"mech": "gq-mismatch", "msg": "%s:%d %s GQ %s, phred of remaining mass %.3g is %d" % (r["chrom"], r["pos"], s, gq, rest, want)})
                if single_chrom_capture and (s, r["pos"] - 1) in core:
                    cv = core[(s, r["pos"] - 1)]
                    counters["core_vs_vcf_checked"] = counters.get("core_vs_vcf_checked", 0) + 1
                    for g in range(3):
                        wantgl = max(math.log10(cv[g]), -1000) if cv[g] > 0 else -1000
                        if abs(gl[g] - wantgl) > 1e-3 * max(1.0, abs(wantgl)):
                            viol.append({"mech": "gl-differs-from-core", "msg": "%s:%d %s GL %r, core returned %r" % (r["chrom"], r["pos"], s, gl, cv)})
                            break
        seen = set()
        viol = [x for x in viol if not (x["mech"] in seen or seen.add(x["mech"]))]
        return viol, called > 0, desc
    finally:
        shutil.rmtree(tmp, ignore_errors=True)


def run_case(idx, rng, tier, lane):
    counters = {}
    keys = set()
    viol = []
    sample = None
    if lane == "rule":
        v, nt = run_rule(idx, rng, counters)
        viol += v
        keys.add("rule-part-%d" % (idx % 16))
        sample = {"lane": "rule", "part": idx % 16}
    elif lane == "pipe":
        for j in range(4):
            v, nt, desc = run_pipe(rng, counters)
            for x in v:
                x["data"] = desc
            viol += v
            if nt:
                keys.add(hashlib.sha1(json.dumps(desc, sort_keys=True, default=str).encode()).hexdigest()[:16])
            sample = desc["options"]
    else:
        for j in range(10 if lane == "core" else 5):
            inst = gen_deep(rng) if lane == "deep" else gen_core(rng, lane)
            v, nt = check_core(inst, counters)
            for x in v:
                x["data"] = inst
            viol += v
            if nt:
                keys.add(hashlib.sha1(json.dumps(inst, sort_keys=True).encode()).hexdigest()[:16])
            sample = {"kind": inst["kind"], "n_reads": len(inst["reads"]), "positions": inst["positions"], "recomb": inst["recomb"], "first_read": inst["reads"][:1]}
    seen = set()
    uniq = [x for x in viol if not (x["mech"] in seen or seen.add(x["mech"]))]
    return {"nontrivial": bool(keys), "key": sorted(keys), "violations": uniq, "counters": counters, "sample": sample, "case": None}
