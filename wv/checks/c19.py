"""C19 — genotype indexing bijection; edit distance == Levenshtein (unbanded and banded)."""
import copy
import pickle
import hashlib
import itertools

from wv.oracle.lev import gt_index, lev, n_genotypes

ID = "C19"
LEVEL = "exploration"
RULE = (
    "Genotype: every allele multiset for ploidy 1..6 x alleles drawn from 0..n-1, n=1..6 (exhaustive; one case per "
    "(ploidy, n)), constructed from a shuffled allele list, checked against the combinatorial-number-system model "
    "(index, gap-freeness 0..C(P+n-1,P)-1, state round trip, deepcopy, ==/</hash vs. index on all pairs of a "
    "stratum, is_homozygous, str, PhredGenotypeLikelihoods.genotypes() order); random multisets up to the limits "
    "(ploidy 15 = get_max_genotype_ploidy(), allele 15 = get_max_genotype_alleles() - 1); ploidy 16 / allele 16 must raise. edit_distance: all ordered pairs over {A,C} up to "
    "length L2 and {A,C,G} up to L3 (quick L2=7,L3=5; thorough 8,6; sanitizer lane one less), str and bytes, unbanded and for every maxdiff "
    "0..max(len)+1; random pairs up to length 400 with planted common prefixes/suffixes and few edits. "
    "Non-trivial: heterozygous genotype of ploidy>=2 with >=3 allele values in range, or a string pair with distance >=1 "
    "where both strings are non-empty and differ in length or content after trimming; distinct by value."
)
EXHAUSTIVE = {"quick": False, "thorough": False}
REQUIRED_COUNTERS = ["gt_checked", "gt_index_sets_gapfree", "ed_unbanded_checked", "ed_banded_checked", "limit_raises_checked"]
ASSUMPTIONS = [
    "limits: ploidy <= 15, allele <= 15 as advertised by get_max_genotype_ploidy() / get_max_genotype_alleles(); beyond them only 'raises' is checked",
]

GT_STRATA = [(p, n) for p in range(1, 7) for n in range(1, 7)]


def lanes(tier):
    if tier == "quick":
        return [("plain", "plain", len(GT_STRATA) + 8 + 64 + 40), ("san", "san", len(GT_STRATA) + 8 + 16 + 16)]
    return [("plain", "plain", len(GT_STRATA) + 40 + 256 + 600), ("san", "san", len(GT_STRATA) + 20 + 64 + 150), ("vg-san", "vg", list(range(0, len(GT_STRATA) + 20 + 64 + 150, 17)))]


def _layout(tier, lane):
    tot = [n for l, f, n in lanes(tier) if l == lane][0]
    a = len(GT_STRATA)
    if tier == "quick":
        b = 8
        c = 64 if lane == "plain" else 16
    else:
        b = 40 if lane == "plain" else 20
        c = 256 if lane == "plain" else 64
    return a, b, c, tot - a - b - c


class Viol(Exception):
    pass


def _check_one(Genotype, alleles, rng, counters):
    sh = list(alleles)
    rng.shuffle(sh)
    g = Genotype(sh)
    exp = gt_index(alleles)
    if g.get_index() != exp:
        raise Viol("Genotype(%r).get_index()=%d, canonical index is %d" % (sh, g.get_index(), exp))
    if sorted(g.as_vector()) != sorted(alleles):
        raise Viol("Genotype(%r).as_vector()=%r is not the allele multiset" % (sh, g.as_vector()))
    if g.get_ploidy() != len(alleles):
        raise Viol("Genotype(%r).get_ploidy()=%d" % (sh, g.get_ploidy()))
    if g.is_none() != (len(alleles) == 0):
        raise Viol("Genotype(%r).is_none()=%r" % (sh, g.is_none()))
    if len(alleles) and g.is_homozygous() != (len(set(alleles)) == 1):
        raise Viol("Genotype(%r).is_homozygous()=%r" % (sh, g.is_homozygous()))
    if g.is_diploid_and_biallelic() != (len(alleles) == 2 and max(alleles) <= 1):
        raise Viol("Genotype(%r).is_diploid_and_biallelic()=%r" % (sh, g.is_diploid_and_biallelic()))
    if len(alleles) and str(g) != "/".join(str(a) for a in sorted(alleles)):
        raise Viol("str(Genotype(%r))=%r" % (sh, str(g)))
    st = g.__getstate__()
    if tuple(st) != (exp, len(alleles)):
        raise Viol("Genotype(%r).__getstate__()=%r expected (%d,%d)" % (sh, st, exp, len(alleles)))
    g2 = Genotype.__new__(Genotype, [])
    g2.__setstate__(st)
    if not (g2 == g) or (g2 != g) or sorted(g2.as_vector()) != sorted(alleles):
        raise Viol("state round trip of %r gives %r (state %r)" % (sorted(alleles), g2.as_vector(), st))
    try:
        gp = pickle.loads(pickle.dumps(g))
    except Exception as e:
        raise Viol("pickling Genotype(%r) (the save/restore protocol __getstate__/__setstate__ exists for) fails: %r" % (sorted(alleles), e))
    if not (gp == g) or gp.get_index() != exp or sorted(gp.as_vector()) != sorted(alleles):
        raise Viol("pickle round trip of %r gives %r" % (sorted(alleles), gp.as_vector()))
    counters["gt_pickle_round_trips"] = counters.get("gt_pickle_round_trips", 0) + 1
    g3 = copy.deepcopy(g)
    if not (g3 == g) or sorted(g3.as_vector()) != sorted(alleles):
        raise Viol("deepcopy of %r gives %r" % (sorted(alleles), g3.as_vector()))
    if hash(g) != hash(g2) or hash(g) != hash(exp):
        raise Viol("hash(Genotype(%r)) inconsistent with its index" % (sh,))
    # restore into a *used* object (its index, hash and state have been queried while it held another genotype)
    other = [(a + 1) % 4 for a in alleles][: max(1, len(alleles) - (1 if rng.random() < 0.3 else 0))] or [1, 0]
    g4 = Genotype(other)
    g4.get_index(), hash(g4), g4.__getstate__(), str(g4)
    g4.__setstate__(st)
    if (not (g4 == g) or g4.get_index() != exp or hash(g4) != hash(g) or tuple(g4.__getstate__()) != tuple(st)
            or sorted(g4.as_vector()) != sorted(alleles) or g4.get_ploidy() != len(alleles)):
        raise Viol("restoring the state of %r into an object that held %r and had been queried: index %r (expected %d), state %r, vector %r" % (
            sorted(alleles), other, g4.get_index(), exp, g4.__getstate__(), g4.as_vector()))
    g5 = Genotype.__new__(Genotype, [])
    g5.__setstate__(g4.__getstate__())
    if not (g5 == g) or sorted(g5.as_vector()) != sorted(alleles):
        raise Viol("second save/restore of %r gives %r" % (sorted(alleles), g5.as_vector()))
    counters["gt_restore_into_used_object_checked"] = counters.get("gt_restore_into_used_object_checked", 0) + 1
    counters["gt_checked"] = counters.get("gt_checked", 0) + 1
    return g


def _check_pairs(gs, counters, rng, limit=None):
    """gs: list of (alleles, Genotype) of the same ploidy."""
    pairs = [(i, j) for i in range(len(gs)) for j in range(len(gs))]
    if limit and len(pairs) > limit:
        pairs = rng.sample(pairs, limit)
    for i, j in pairs:
        (a, ga), (b, gb) = gs[i], gs[j]
        ia, ib = gt_index(a), gt_index(b)
        same = sorted(a) == sorted(b)
        if (ga == gb) != same or (ga != gb) != (not same):
            raise Viol("== / != of %r and %r: %r/%r" % (a, b, ga == gb, ga != gb))
        if (ga < gb) != (ia < ib):
            raise Viol("%r < %r gives %r but indices are %d, %d" % (a, b, ga < gb, ia, ib))
        # the remaining comparison operators: where they are defined (no TypeError) they must agree with the index as well
        for sym, fn, exp in ((">", lambda x, y: x > y, ia > ib), ("<=", lambda x, y: x <= y, ia <= ib), (">=", lambda x, y: x >= y, ia >= ib)):
            try:
                got = fn(ga, gb)
            except TypeError:
                counters["gt_operator_undefined"] = counters.get("gt_operator_undefined", 0) + 1
                continue
            if bool(got) != exp:
                raise Viol("%r %s %r gives %r but indices are %d, %d" % (a, sym, b, got, ia, ib))
        if same != (ia == ib):
            raise Viol("model: index collision")  # cannot happen; guards the oracle
        if (hash(ga) == hash(gb)) != (ia == ib) and same:
            raise Viol("hash differs for equal genotypes %r" % (a,))
    counters["gt_pairs_checked"] = counters.get("gt_pairs_checked", 0) + len(pairs)


def _gt_stratum(p, n, rng, counters, keys):
    from whatshap.core import Genotype, PhredGenotypeLikelihoods

    gs = []
    idxs = []
    for alleles in itertools.combinations_with_replacement(range(n), p):
        g = _check_one(Genotype, list(alleles), rng, counters)
        gs.append((list(alleles), g))
        idxs.append(g.get_index())
        if p >= 2 and len(set(alleles)) >= 2 and n >= 3:
            keys.add("gt:%s" % (alleles,))
    if sorted(idxs) != list(range(n_genotypes(p, n))):
        raise Viol("indices of ploidy %d over %d alleles are not 0..%d: %r" % (p, n, n_genotypes(p, n) - 1, sorted(idxs)[:40]))
    counters["gt_index_sets_gapfree"] = counters.get("gt_index_sets_gapfree", 0) + 1
    # inverse direction: every index maps back to the genotype that has it
    by_idx = {gt_index(a): a for a, _ in gs}
    for i in range(n_genotypes(p, n)):
        g2 = Genotype.__new__(Genotype, [])
        g2.__setstate__((i, p))
        if sorted(g2.as_vector()) != sorted(by_idx[i]) or g2.get_index() != i:
            raise Viol("index %d ploidy %d converts to %r, expected %r" % (i, p, g2.as_vector(), by_idx[i]))
    counters["gt_index_to_alleles_checked"] = counters.get("gt_index_to_alleles_checked", 0) + n_genotypes(p, n)
    _check_pairs(gs, counters, rng, limit=20000)
    if n >= 2:
        pl = PhredGenotypeLikelihoods([0.0] * n_genotypes(p, n), p, n)
        got = [sorted(g.as_vector()) for g in pl.genotypes()]
        exp = [sorted(by_idx[i]) for i in range(n_genotypes(p, n))]
        if got != exp:
            raise Viol("PhredGenotypeLikelihoods(ploidy=%d,alleles=%d).genotypes() order %r != index order %r" % (p, n, got[:10], exp[:10]))
        counters["gl_orders_checked"] = counters.get("gl_orders_checked", 0) + 1


def _gt_random(rng, counters, keys):
    from whatshap.core import Genotype

    from whatshap.core import get_max_genotype_alleles, get_max_genotype_ploidy

    # the supported limits are the ones the package itself advertises (and VcfReader enforces), not what a constructor happens to accept
    pmax, amax = get_max_genotype_ploidy(), get_max_genotype_alleles() - 1
    if (pmax, amax) != (15, 15):
        raise Viol("advertised limits changed: max ploidy %r, max allele index %r" % (pmax, amax))
    for _ in range(300):
        p = rng.choice([rng.randint(1, pmax), pmax, pmax - 1, pmax - 2, rng.randint(7, pmax)])
        hi = rng.choice([amax, amax, rng.randint(1, amax)])
        alleles = [rng.randint(0, hi) for _ in range(p)]
        if rng.random() < 0.2:
            alleles = [rng.choice([0, hi])] * p
        try:
            Genotype(alleles)
        except RuntimeError as e:
            raise Viol("Genotype(%r) (ploidy %d, largest allele %d: within the advertised limits %d / %d) raised %s: %s" % (alleles, p, max(alleles), pmax, amax, type(e).__name__, e))
        g = _check_one(Genotype, alleles, rng, counters)
        b = [rng.randint(0, hi) for _ in range(p)]
        gb = _check_one(Genotype, b, rng, counters)
        _check_pairs([(alleles, g), (b, gb)], counters, rng)
        if len(set(alleles)) >= 2:
            keys.add("gt:%s" % (tuple(sorted(alleles)),))
        # neighbours: same ploidy, one small allele changed (shares the largest alleles); and a different ploidy
        c = sorted(alleles)
        c[0] = (c[0] + 1) % (hi + 1) if hi else c[0]
        if sorted(c) != sorted(alleles):
            gc = _check_one(Genotype, c, rng, counters)
            _check_pairs([(alleles, g), (c, gc)], counters, rng)
        d = sorted(alleles)[: max(0, p - rng.randint(1, 2))]
        gd = Genotype(d)
        if (g == gd) or not (g != gd):
            raise Viol("Genotype(%r) == Genotype(%r) although the ploidies differ" % (alleles, d))
        counters["gt_cross_ploidy_checked"] = counters.get("gt_cross_ploidy_checked", 0) + 1
    # empty genotype
    e = Genotype([])
    if not e.is_none() or e.get_ploidy() != 0 or str(e) != ".":
        raise Viol("empty genotype: is_none=%r ploidy=%r str=%r" % (e.is_none(), e.get_ploidy(), str(e)))
    # limits must raise, not corrupt
    for bad in ([0] * (pmax + 1), [0] * (pmax + 2), [1] * 20, [amax + 1], [0, amax + 1], [3, 17, 1], [2**31]):
        try:
            g = Genotype(bad)
        except (RuntimeError, OverflowError, ValueError):
            counters["limit_raises_checked"] = counters.get("limit_raises_checked", 0) + 1
            continue
        raise Viol("Genotype(%r) beyond the limits did not raise: %r index %r" % (bad, g.as_vector(), g.get_index()))


def _ed_check(edit_distance, s, t, counters, keys, bands):
    d = lev(s, t)
    # the property quantifies over call histories too: vary the order of banded / unbanded calls on the same pair
    bands = list(bands)
    order = (len(s) * 31 + len(t) * 17 + d) % 3
    if order == 1:
        bands.reverse()
    elif order == 2:
        bands = bands[1::2] + bands[0::2]

    def unbanded():
        for a, b in ((s, t), (s.encode(), t.encode())):
            got = edit_distance(a, b)
            if got != d:
                raise Viol("edit_distance(%r,%r)=%r, Levenshtein distance is %d (call order %d)" % (a, b, got, d, order))
            counters["ed_unbanded_checked"] = counters.get("ed_unbanded_checked", 0) + 1

    if order == 0:
        unbanded()
    for j, k in enumerate(bands):
        # str and bytes arguments, also mixed (the window of a read is compared with alleles read from another source)
        a, b = [(s, t), (s.encode(), t.encode()), (s, t.encode()), (s.encode(), t)][(j + len(s)) % 4]
        got = edit_distance(a, b, k)
        if d <= k:
            if got != d:
                raise Viol("edit_distance(%r,%r,maxdiff=%d)=%r, true distance %d <= band" % (s, t, k, got, d))
        elif not got > k:
            raise Viol("edit_distance(%r,%r,maxdiff=%d)=%r, true distance %d > band but result is not > band" % (s, t, k, got, d))
        counters["ed_banded_checked"] = counters.get("ed_banded_checked", 0) + 1
    if order != 0:
        unbanded()
    if d >= 1 and s and t:
        keys.add("ed:%s:%s" % (s if len(s) < 30 else hashlib.sha1(s.encode()).hexdigest()[:12], t if len(t) < 30 else hashlib.sha1(t.encode()).hexdigest()[:12]))


def _ed_exhaustive(j, nparts, tier, lane, counters, keys):
    from whatshap.align import edit_distance

    l2, l3 = (7, 5) if tier == "quick" else (8, 6)
    if lane == "san":
        l2, l3 = l2 - 1, l3 - 1
    strs2 = ["".join(p) for l in range(0, l2 + 1) for p in itertools.product("AC", repeat=l)]
    strs3 = ["".join(p) for l in range(0, l3 + 1) for p in itertools.product("ACG", repeat=l)]
    n = 0
    for strs in (strs2, strs3):
        for i, s in enumerate(strs):
            if i % nparts != j:
                continue
            for t in strs:
                _ed_check(edit_distance, s, t, counters, keys, range(0, max(len(s), len(t)) + 2))
                n += 1
    return n, (l2, l3)


def _ed_random(rng, counters, keys, maxlen):
    from whatshap.align import edit_distance

    alpha = rng.choice(["ACGT", "AC", "ACGTN", "A"])
    L = rng.choice([rng.randint(0, 20), rng.randint(0, maxlen), rng.randint(0, 60)])
    s = [rng.choice(alpha) for _ in range(L)]
    t = list(s)
    for _ in range(rng.choice([0, 1, 2, 3, rng.randint(0, 12)])):
        op = rng.random()
        pos = rng.randint(0, len(t))
        if op < 0.34 and pos < len(t):
            t[pos] = rng.choice(alpha)
        elif op < 0.67:
            t.insert(pos, rng.choice(alpha))
        elif pos < len(t):
            del t[pos]
    r = rng.random()
    if r < 0.15:
        t = [rng.choice(alpha) for _ in range(rng.randint(0, maxlen // 4))]
    elif r < 0.35:
        # two unrelated strings of independently chosen lengths (long ones included, either may be the longer one):
        # the distance is then far from both 0 and the length difference
        s = [rng.choice(alpha) for _ in range(rng.randint(0, maxlen))]
        t = [rng.choice(alpha) for _ in range(rng.randint(0, maxlen))]
    pre = "".join(rng.choice(alpha) for _ in range(rng.choice([0, 0, 1, 5, 40])))
    suf = "".join(rng.choice(alpha) for _ in range(rng.choice([0, 0, 1, 5, 40])))
    s = pre + "".join(s) + suf
    t = pre + "".join(t) + suf
    d = lev(s, t)
    bands = sorted(set([0, 1, 2, max(0, d - 1), d, d + 1, d + 5, abs(len(s) - len(t)), max(len(s), len(t)) + 1, rng.randint(0, 30)]))
    _ed_check(edit_distance, s, t, counters, keys, bands)
    return s, t, d


def run_case(idx, rng, tier, lane):
    counters = {}
    keys = set()
    viol = []
    sample = None
    a, b, c, d = _layout(tier, lane)
    try:
        if idx < a:
            p, n = GT_STRATA[idx]
            _gt_stratum(p, n, rng, counters, keys)
            sample = {"kind": "genotype-exhaustive", "ploidy": p, "alleles": n, "genotypes": n_genotypes(p, n)}
        elif idx < a + b:
            _gt_random(rng, counters, keys)
            sample = {"kind": "genotype-random+limits"}
        elif idx < a + b + c:
            n, ls = _ed_exhaustive(idx - a - b, c, tier, lane, counters, keys)
            sample = {"kind": "edit-distance-exhaustive", "part": idx - a - b, "of": c, "max_len_AC_ACG": ls, "pairs": n}
        else:
            for _ in range(40 if tier == "quick" else 60):
                s, t, dist = _ed_random(rng, counters, keys, 400 if lane == "plain" else 200)
            sample = {"kind": "edit-distance-random", "s": s[:60], "t": t[:60], "len": [len(s), len(t)], "distance": dist}
    except Viol as e:
        kind = "genotype" if idx < a + b else "edit-distance"
        viol.append({"mech": "%s-model-mismatch" % kind, "msg": str(e)[:3000]})
    return {
        "nontrivial": bool(keys),
        "key": sorted(keys)[:3000],
        "violations": viol,
        "counters": counters,
        "sample": sample,
        "case": sample,
    }
