"""C07 — read selection: cap, maximality, check-before-insert, exactly-once charging.

Lane "direct": whatshap.readselect.readselection on generated read sets with the coverage monitor class
interposed (whatshap.readselect.CovMonitor replaced by a recording subclass of the real one).
Lane "pipe": `whatshap phase` runs (see wv/pipeline.py) — active reads per solver column <= k.
"""
import hashlib
import itertools
import json

ID = "C07"
LEVEL = "exploration"
RULE = (
    "direct: read sets of 1..200 reads over 2..40 variants (contiguous and gapped reads, many identical spans and equal "
    "scores, 1-3 sources), cap k in 1..8,15, preferred sources absent/present, bridging on/off, sorted with the real "
    "ReadSet.sort(); bounded-exhaustive block: every multiset of <=4 reads (<=3 quick) out of the 11 read shapes over 4 "
    "variants x k in {1,2,3} x bridging x every preferred/non-preferred labelling. Monitors: post-condition (subset, cap over "
    "first..last span, maximality), invariant max(coverage)<=k after every add_read, temporal check-before-insert, "
    "exactly-once charging (#add_read == |selected|, span multisets equal). pipe: whatshap phase on simulated data, active reads "
    "per column of the solver instance <= --internal-downsampling. Non-trivial: some variant reaches coverage k and >=1 read is "
    "rejected; distinct by hash of (read set, k, options)."
)
EXHAUSTIVE = {"quick": False, "thorough": False}
REQUIRED_COUNTERS = ["selections", "postcond_checked", "covmon_add_events", "covmon_query_events", "rejected_reads_checked_maximal", "pipe_runs_ok", "solver_columns_checked"]
ASSUMPTIONS = [
    "every read covers >= 2 variants (documented precondition of readselection)",
    "the coverage monitor is observed through a recording subclass of whatshap.coverage.CovMonitor installed as the module "
    "global whatshap.readselect.CovMonitor; a zero event count makes the run inconclusive",
]

SHAPES4 = [(0, 1), (0, 1, 2), (0, 1, 2, 3), (1, 2), (1, 2, 3), (2, 3), (0, 2), (0, 3), (0, 1, 3), (0, 2, 3), (1, 3)]


def lanes(tier):
    if tier == "quick":
        return [("direct", "plain", 400), ("san", "san", 80), ("pipe", "plain", 96)]
    return [("direct", "plain", 16000), ("san", "san", 2000), ("pipe", "plain", 3200), ("vg-san", "vg", 16)]


def run_pipe(rng, counters):
    """whatshap phase on deep data: active reads per solver column <= k; per-sample cap = max(1, k // |family|)."""
    import os
    import shutil
    import tempfile

    from wv import pipeline
    from wv.gen import genome

    tmp = tempfile.mkdtemp(prefix="c07-", dir=os.environ.get("WV_SCRATCH"))
    try:
        mode = rng.choice(["single", "single", "trio", "quartet", "multi"])
        if mode == "single":
            samples, ped = ["sampleA"], []
        elif mode == "multi":
            samples, ped = ["sampleA", "sampleB"], []
        elif mode == "trio":
            samples, ped = ["dad", "mom", "kid"], [("dad", "mom", "kid")]
        else:
            samples, ped = ["dad", "mom", "kid1", "kid2"], [("dad", "mom", "kid1"), ("dad", "mom", "kid2")]
        k = rng.choice([2, 3, 4, 5, 6, 7, 8, 9, 10, 11, 12, 13, 14, 15])
        p = {"n_chrom": 1, "chrom_len": 2500, "n_var": rng.randint(6, 20), "kinds": ["snv"], "samples": samples, "pedigree": ped,
             "depth": rng.choice([10, 25, 50]), "read_len": rng.choice([(150, 500), (300, 1200)]), "paired": rng.choice([0.0, 0.5]),
             "end_policy": "clean", "error_rate": rng.choice([0.0, 0.02]), "het_prob": 0.8,
             # one file per sample, each numbering its reads from 0: read names recur across the files of a family
             "per_sample_bam": rng.random() < 0.3, "names_per_sample": rng.random() < 0.5}
        unsequenced = None
        if ped and rng.random() < 0.35:
            # one family member was not sequenced (no reads, no read group); its phase comes from a phased VCF only. The cap
            # is stated over all members of the family, pseudo reads included
            unsequenced = rng.choice(samples[:2]) if rng.random() < 0.7 else samples[-1]
            p["read_samples"] = [s_ for s_ in samples if s_ != unsequenced]
            p["rg_only_read_samples"] = True
            p["per_sample_bam"] = False
        sim = genome.simulate(rng, tmp, p)
        inputs = list(sim.bams)
        with_vcf = rng.random() < 0.4 or unsequenced is not None
        if with_vcf:
            doc, _ = genome.truth_phased_doc(sim, rng, tag="PS", block_len=(2, 6), interleave=rng.random() < 0.5)
            pv = os.path.join(tmp, "phased_input.vcf")
            doc.write(pv)
            inputs.append(pv)
        ro = {"reference": False, "max_coverage": k}
        merging = rng.random() < 0.25
        if merging:
            # --merge-reads: selection then works on the merged read set (which has fewer, longer reads than the input)
            ro["read_merging"] = True
        if ped:
            ro["ped"] = sim.ped
        status, trace, msg = pipeline.run_phase(sim, os.path.join(tmp, "out.vcf"), phase_inputs=inputs, **ro)
        desc = {"mode": mode, "k": k, "depth": p["depth"], "with_phased_vcf": with_vcf, "n_reads": len(sim.reads),
                "first_variants": [v.as_list() for v in sim.variants["chr1"][:4]]}
        if status != "ok":
            if status == "cle":
                return [], False, desc
            return [pipeline.crash_violation(msg)], False, desc
        counters["pipe_runs_ok"] = counters.get("pipe_runs_ok", 0) + 1
        if unsequenced:
            counters["pipe_runs_with_unsequenced_member"] = counters.get("pipe_runs_with_unsequenced_member", 0) + 1
        if with_vcf:
            counters["pipe_runs_with_phased_vcf"] = counters.get("pipe_runs_with_phased_vcf", 0) + 1
        if merging:
            counters["pipe_runs_with_read_merging"] = counters.get("pipe_runs_with_read_merging", 0) + 1
        v = pipeline.judge_cap(trace, k, counters)
        reached = any(
            max((sum(1 for r in i["reads"] if r["vars"][0][0] <= q <= r["vars"][-1][0]) for q in i["positions"]), default=0) >= max(1, k // len(i["family"])) * len(i["family"]) - 0
            for i in trace["instances"] if "reads" in i and i["positions"]
        )
        return v, reached, desc
    finally:
        shutil.rmtree(tmp, ignore_errors=True)


class Viol(Exception):
    def __init__(self, mech, msg):
        Exception.__init__(self, msg)
        self.mech = mech


_EVENTS = []
_STATE = {"k": None, "installed": False}


def _install():
    if _STATE["installed"]:
        return
    import whatshap.coverage
    import whatshap.readselect as rsel

    Real = whatshap.coverage.CovMonitor

    class RecordingCovMonitor(Real):
        def max_coverage_in_range(self, begin, end):
            r = Real.max_coverage_in_range(self, begin, end)
            _EVENTS.append(("q", begin, end, r))
            return r

        def add_read(self, begin, end):
            Real.add_read(self, begin, end)
            _EVENTS.append(("a", begin, end, max(self.coverage) if self.coverage else 0))

    rsel.CovMonitor = RecordingCovMonitor
    _STATE["installed"] = True


def make_readset(case):
    from whatshap.core import Read, ReadSet

    rs = ReadSet()
    for i, rd in enumerate(case["reads"]):
        r = Read("r%05d" % i, 50, rd["src"], 0)
        for p, q in zip(rd["pos"], rd["qual"]):
            r.add_variant(p, 0, q)
        rs.add(r)
    rs.sort()
    return rs


def check_selection(case, counters):
    """Run readselection on the case and apply all monitors. Returns nontrivial flag."""
    from whatshap.readselect import readselection

    _install()
    rs = make_readset(case)
    k = case["k"]
    del _EVENTS[:]
    pref = set(case["preferred"]) if case["preferred"] is not None else None
    sel = readselection(rs, k, pref, case["bridging"])
    counters["selections"] = counters.get("selections", 0) + 1
    events = list(_EVENTS)
    n = len(rs)
    positions = sorted({p for rd in case["reads"] for p in rd["pos"]})
    vidx = {p: i for i, p in enumerate(positions)}
    spans = []
    for r in rs:
        ps = [v.position for v in r]
        spans.append((vidx[ps[0]], vidx[ps[-1]] + 1))
    sel = set(sel)
    # ---- post-condition
    if not all(isinstance(i, int) and 0 <= i < n for i in sel):
        raise Viol("subset", "selected indices %r outside 0..%d" % (sorted(sel), n - 1))
    cov = [0] * len(positions)
    for i in sel:
        for j in range(*spans[i]):
            cov[j] += 1
    if cov and max(cov) > k:
        raise Viol("cap", "variant index %d spanned by %d selected reads, cap %d" % (cov.index(max(cov)), max(cov), k))
    rejected = [i for i in range(n) if i not in sel]
    for i in rejected:
        if max(cov[spans[i][0] : spans[i][1]]) < k:
            has_pref = bool(pref) and any(r.source_id in pref for r in rs)
            mech = "maximality"
            raise Viol(
                mech,
                "read %d spanning variant indices %r was left out although every variant it spans has < %d selected reads "
                "(coverage there %r); preferred reads present: %s" % (i, spans[i], k, cov[spans[i][0] : spans[i][1]], has_pref),
            )
    counters["postcond_checked"] = counters.get("postcond_checked", 0) + 1
    counters["rejected_reads_checked_maximal"] = counters.get("rejected_reads_checked_maximal", 0) + len(rejected)
    # ---- invariant at hook + temporal monitor + conservation
    adds = [e for e in events if e[0] == "a"]
    counters["covmon_add_events"] = counters.get("covmon_add_events", 0) + len(adds)
    counters["covmon_query_events"] = counters.get("covmon_query_events", 0) + len(events) - len(adds)
    if n and not events:
        raise Viol("monitor-bypassed", "readselection ran on %d reads without touching the coverage monitor" % n)
    last_q = None
    for e in events:
        if e[0] == "q":
            last_q = e
        else:
            if e[3] > k:
                raise Viol("cap-invariant", "coverage monitor reached %d > cap %d after add_read(%d,%d)" % (e[3], k, e[1], e[2]))
            if last_q is None or last_q[1:3] != e[1:3] or not last_q[3] < k:
                raise Viol(
                    "insert-without-check",
                    "add_read(%d,%d) not immediately preceded by max_coverage_in_range of the same range returning < %d (last query: %r)"
                    % (e[1], e[2], k, last_q),
                )
            last_q = None
    if len(adds) != len(sel) or sorted((e[1], e[2]) for e in adds) != sorted(spans[i] for i in sel):
        raise Viol(
            "double-charge",
            "%d add_read events for %d selected reads (spans charged %r vs selected %r)"
            % (len(adds), len(sel), sorted((e[1], e[2]) for e in adds)[:12], sorted(spans[i] for i in sel)[:12]),
        )
    counters["exactly_once_checked"] = counters.get("exactly_once_checked", 0) + 1
    return bool(cov) and max(cov) == k and len(rejected) >= 1


def _key(case):
    return hashlib.sha1(json.dumps(case, sort_keys=True).encode()).hexdigest()[:16]


def gen_case(rng):
    nvar = rng.choice([2, 3, 4, 5, 8, 12, 20, 40, 70, 140, 200, 260])  # also far more variants than any block size of the coverage monitor
    positions = sorted(rng.sample(range(1, 10 * nvar + 2), nvar))
    nreads = rng.choice([1, 2, 3, 5, 8, 15, 30, 60, 120, 200])
    k = rng.choice([1, 1, 2, 2, 3, 4, 5, 6, 7, 8, 15])
    nsrc = rng.choice([1, 1, 2, 3])
    qmode = rng.choice(["equal", "few", "wide"])
    span_pool = None
    if rng.random() < 0.3:
        # many identical spans
        span_pool = []
        for _ in range(rng.randint(1, 4)):
            a = rng.randrange(0, nvar - 1)
            b = rng.randrange(a + 1, nvar)
            span_pool.append((a, b))
    reads = []
    for _ in range(nreads):
        if span_pool:
            a, b = rng.choice(span_pool)
        else:
            a = rng.randrange(0, nvar - 1)
            maxlen = rng.choice([1, 2, 3, nvar]) if nvar <= 40 else rng.choice([1, 3, 10, 40, nvar, nvar])
            b = min(nvar - 1, a + rng.randint(1, maxlen))
            if nvar > 40 and rng.random() < 0.15:
                a, b = rng.randrange(0, 8), nvar - 1 - rng.randrange(0, 8)  # a read across (almost) the whole contig
        dens = rng.choice([1.0, 0.8, 0.3]) if nvar <= 40 else rng.choice([1.0, 0.3, 0.05, 0.0])
        inner = [i for i in range(a + 1, b) if rng.random() < dens]
        idx = [a] + inner + [b]
        if qmode == "equal":
            q = [30] * len(idx)
        elif qmode == "few":
            q = [rng.choice([10, 30]) for _ in idx]
        else:
            q = [rng.randint(0, 60) for _ in idx]
        reads.append({"pos": [positions[i] for i in idx], "qual": q, "src": rng.randrange(nsrc)})
    pm = rng.random()
    if pm < 0.45:
        preferred = None
    elif pm < 0.55:
        preferred = []
    else:
        preferred = sorted(rng.sample(range(nsrc), rng.randint(1, nsrc)))
    return {"reads": reads, "k": k, "preferred": preferred, "bridging": rng.random() < 0.6}


def _exhaustive(idx, nchunks, tier, counters, keys):
    maxreads = 3 if tier == "quick" else 4
    pos = [10, 20, 30, 40]
    total = 0
    cnt = 0
    for nr in range(1, maxreads + 1):
        for combo in itertools.combinations_with_replacement(range(len(SHAPES4)), nr):
            cnt += 1
            if cnt % nchunks != idx:
                continue
            for k in (1, 2, 3):
                for bridging in (False, True):
                    for label in itertools.product((0, 1), repeat=nr):
                        # skip labellings equivalent under permutation of identical shapes
                        if any(combo[i] == combo[i + 1] and label[i] > label[i + 1] for i in range(nr - 1)):
                            continue
                        reads = [
                            {"pos": [pos[j] for j in SHAPES4[s]], "qual": [30] * len(SHAPES4[s]), "src": label[i]}
                            for i, s in enumerate(combo)
                        ]
                        case = {"reads": reads, "k": k, "preferred": [1] if any(label) else None, "bridging": bridging}
                        try:
                            nt = check_selection(case, counters)
                        except Viol as e:
                            e.case = case
                            raise
                        total += 1
                        if nt:
                            keys.add(_key(case))
    counters["exhaustive_cases"] = counters.get("exhaustive_cases", 0) + total


def run_case(idx, rng, tier, lane):
    counters = {}
    keys = set()
    viol = []
    sample = None
    case = None
    nex = 32
    if lane == "pipe":
        for _ in range(4):
            v, nt, desc = run_pipe(rng, counters)
            for x in v:
                x["data"] = desc
            viol += v
            if nt:
                keys.add(hashlib.sha1(json.dumps(desc, sort_keys=True).encode()).hexdigest()[:16])
            sample = desc
        seen = set()
        viol = [x for x in viol if not (x["mech"] in seen or seen.add(x["mech"]))]
        return {"nontrivial": bool(keys), "key": sorted(keys), "violations": viol, "counters": counters, "sample": sample, "case": None}
    try:
        if idx < nex and lane == "direct":
            _exhaustive(idx, nex, tier, counters, keys)
            sample = {"kind": "bounded-exhaustive", "chunk": idx, "cases": counters.get("exhaustive_cases")}
        else:
            for _ in range(12 if lane == "direct" else 6):
                case = gen_case(rng)
                try:
                    nt = check_selection(case, counters)
                except Viol as e:
                    e.case = case
                    raise
                if case["preferred"]:
                    counters["with_preferred"] = counters.get("with_preferred", 0) + 1
                if nt:
                    keys.add(_key(case))
            sample = {"k": case["k"], "preferred": case["preferred"], "bridging": case["bridging"], "n_reads": len(case["reads"]), "first_reads": case["reads"][:4]}
            case = None
    except Viol as e:
        case = getattr(e, "case", None)
        small = case if case and len(case["reads"]) <= 30 else {"k": case["k"], "preferred": case["preferred"], "bridging": case["bridging"], "n_reads": len(case["reads"])}
        viol.append({"mech": e.mech, "msg": str(e)[:2000], "data": small})
    return {"nontrivial": bool(keys), "key": sorted(keys), "violations": viol, "counters": counters, "sample": sample, "case": None}
