"""C17 — haplotag followed by haplotagphase reproduces the phasing that tagged the reads."""
import copy
import hashlib
import json
import os
import shutil
import tempfile
import traceback

from wv.gen import genome
from wv.oracle import vcftext

ID = "C17"
LEVEL = "exploration"
RULE = (
    "G-history pipeline on diploid G-genome data (1-2 samples, SNV / insertion / deletion / MNP variants incl. ones inside "
    "homopolymers, error-free reads, single and paired; a quarter of the runs with linked reads: BX barcodes on islands of "
    "variants > 50 kb apart, the same barcode recurring on distant molecules of either haplotype; a quarter with --only-indels; 30% on a BAM that carries stale HP/PS/PC tags of "
    "an earlier, different phasing, re-tagged with haplotag --regions; 30% with multi-allelic (0|2) and phased duplicate-position "
    "records): truth VCF phased with PS in 1-4 blocks per contig (bgzip+tabix) -> "
    "whatshap haplotag on reads that each lie within one phase set -> tagged BAM; the VCF is then unphased completely or "
    "partially (a random subset of variants keeps its phase; by an own rewrite or by whatshap unphase) -> whatshap "
    "haplotagphase with default thresholds. Oracle (own decoders): every variant phased in the result has exactly the truth's "
    "haplotype order (not up to flip) and the truth's phase set; every call that was phased in the haplotagphase input is "
    "unchanged (GT and PS). Non-trivial: a run in which >=3 variants get phased by votes and (for the partial stratum) >=1 "
    "pre-phased variant exists; distinct by hash of the run description."
)
REQUIRED_COUNTERS = ["runs_ok", "phased_by_votes_checked", "prephased_checked", "tagged_reads"]
ASSUMPTIONS = ["no read overlaps two different phase sets (reads spanning two blocks are removed from the BAM), as the statement requires"]
WATCHDOG = {"quick": 300, "thorough": 900}


def lanes(tier):
    return [("plain", "plain", 480 if tier == "quick" else 12000)]


def run_one(rng, counters):
    import pysam
    from whatshap.cli.haplotag import run_haplotag
    from whatshap.cli.haplotagphase import run_haplotagphase
    from whatshap.cli.unphase import run_unphase

    tmp = tempfile.mkdtemp(prefix="c17-", dir=os.environ.get("WV_SCRATCH"))
    try:
        nsamp = rng.choice([1, 1, 2])
        samples = ["sample%s" % c for c in "AB"[:nsamp]]
        p = {"n_chrom": rng.choice([1, 2]), "chrom_len": 3000, "n_var": rng.randint(6, 20), "kinds": rng.choice([["snv"], ["snv", "snv", "ins", "del", "mnp"], ["ins", "del"]]),
             "samples": samples, "depth": rng.choice([4, 8, 15]), "read_len": rng.choice([(150, 500), (300, 1200)]), "paired": rng.choice([0.0, 0.5]),
             "end_policy": "clean", "error_rate": 0.0, "het_prob": 0.85}
        linked = rng.random() < 0.25
        if linked:
            # linked reads (BX barcodes): islands of variants/reads further apart than haplotag's linked-read cutoff (50 kb),
            # barcodes recurring on distant molecules of either haplotype; one phase set per contig, so no read cloud
            # spans two phase sets
            p.update({"n_chrom": 1, "islands": (rng.choice([2, 3]), 3000, rng.choice([51000, 70000])), "barcodes": rng.choice([2, 3, 5]),
                      "n_var": rng.randint(10, 24), "read_len": (150, 500), "depth": rng.choice([4, 8])})
        sim = genome.simulate(rng, tmp, p)
        if not sim.reads:
            return [], False, {"params": p}
        cover = rng.choice(["full", "full", "partial"])
        truth, blocks = genome.truth_phased_doc(sim, rng, tag="PS", block_len=(1000, 1000) if linked else (3, 10))
        hostile = rng.random() < 0.3
        n_multi = n_dup = n_missing = 0
        if hostile:
            # (a) SNV records turned multi-allelic: an unused first ALT is added, the carried ALT becomes allele 2 (0|1 -> 0|2);
            # (b) a second record at the position of a variant (as from splitting a multi-allelic site), heterozygous and phased
            new = []
            for r in truth.records:
                if r.get("kind") == "snv" and len(r["ref"]) == 1 and rng.random() < 0.2:
                    other = rng.choice([b for b in "ACGT" if b not in (r["ref"], r["alts"][0])])
                    r["alts"] = [other, r["alts"][0]]
                    for call in r["calls"]:
                        call["GT"] = call["GT"].replace("1", "2")
                    n_multi += 1
                    new.append(r)
                    continue
                new.append(r)
                if r.get("kind") == "snv" and len(r["ref"]) == 1 and rng.random() < 0.15:
                    other = rng.choice([b for b in "ACGT" if b not in (r["ref"], r["alts"][0])])
                    if rng.random() < 0.4:
                        other = r["ref"] + other + rng.choice(["", "A", "GT"])  # the second record of the position is an insertion
                    calls = []
                    for call in r["calls"]:
                        if "|" in call["GT"]:
                            calls.append({"GT": rng.choice(["0|1", "1|0"]), "GQ": "30", "PS": call.get("PS", ".")})
                        else:
                            calls.append({"GT": "0/0", "GQ": "30", "PS": "."} if "PS" in r["fmt"] else {"GT": "0/0", "GQ": "30"})
                    new.append({"chrom": r["chrom"], "pos": r["pos"], "id": ".", "ref": r["ref"], "alts": [other], "qual": ".", "filter": ".", "info": ".",
                                "fmt": list(r["fmt"]), "calls": calls, "kind": "dup"})
                    n_dup += 1
            truth.records = new
            # (c) a sample without genotype at a site its reads cover
            for r in truth.records:
                if r.get("kind") == "snv" and rng.random() < 0.08:
                    k_ = rng.randrange(len(r["calls"]))
                    r["calls"][k_]["GT"] = "./."
                    if "PS" in r["calls"][k_]:
                        r["calls"][k_]["PS"] = "."
                    n_missing += 1
        tvcf = os.path.join(tmp, "truth.vcf.gz")
        truth.write(tvcf, compress=True)
        # reads confined to one phase set (per sample): drop reads whose span covers het variants of two blocks
        blk_of = {}
        for (c, s), bl in blocks.items():
            for bid, items in bl.items():
                for pos, al in items:
                    blk_of[(c, s, pos - 1)] = bid
        src = pysam.AlignmentFile(sim.bams[0])
        hdr = src.header.to_dict()
        keep_names = {}
        frag = {}
        for r in sim.reads:
            frag.setdefault(r["name"], []).append(r)
        for name, parts in frag.items():
            c, s = parts[0]["chrom"], parts[0]["sample"]
            seen = set()
            for pt in parts:
                a = pt["start"]
                b = a + sum(l for op, l in pt["cigar"] if op in (0, 2, 3, 7, 8))
                for v in sim.variants[c]:
                    if a <= v.pos < b or a < v.end <= b:
                        bid = blk_of.get((c, s, v.pos))
                        if bid is not None:
                            seen.add(bid)
            keep_names[name] = len(seen) <= 1 and (cover == "full" or rng.random() < 0.5)
        fbam = os.path.join(tmp, "confined.bam")
        n_kept = 0
        retag = rng.random() < 0.3
        with pysam.AlignmentFile(fbam, "wb", header=hdr) as out:
            for a in src:
                if keep_names.get(a.query_name):
                    if retag and rng.random() < 0.6:
                        # the BAM was tagged before, with another phasing: stale HP/PS/PC values
                        a.set_tag("HP", rng.randint(1, 2))
                        a.set_tag("PS", 7)
                        a.set_tag("PC", 50)
                    out.write(a)
                    n_kept += 1
        src.close()
        pysam.index(fbam)
        only_indels = rng.random() < 0.25 and p["kinds"] != ["snv"]
        desc = {"params": p, "cover": cover, "linked": linked, "only_indels": only_indels, "multiallelic_records": n_multi, "duplicate_position_records": n_dup, "missing_genotypes": n_missing}
        if n_kept == 0:
            return [], False, desc
        tagged = os.path.join(tmp, "tagged.bam")
        hkw = {}
        if retag and not linked:
            # tagging restricted to a region: reads that reach into it but cover only variants outside cannot be assigned
            c0 = rng.choice(sim.chroms)
            s0 = rng.randint(0, 1200)
            hkw["regions"] = ["%s:%d-%d" % (c0, s0 + 1, s0 + rng.randint(500, 1500))]
        try:
            run_haplotag(variant_file=tvcf, alignment_file=fbam, output=tagged, reference=sim.fasta, **hkw)
        except Exception:
            tb = traceback.format_exc()
            return [{"mech": "haplotag-crash:" + tb.strip().splitlines()[-1].split(":")[0], "msg": tb[-1200:]}], False, desc
        pysam.index(tagged)
        ntag = sum(1 for a in pysam.AlignmentFile(tagged) if a.has_tag("HP"))
        counters["tagged_reads"] = counters.get("tagged_reads", 0) + ntag
        # unphase fully or partially
        mode = rng.choice(["full-own", "full-unphase", "partial", "partial"])
        desc["unphase_mode"] = mode
        inp = copy.deepcopy(truth)
        kept = set()
        if mode == "full-unphase":
            plain = os.path.join(tmp, "truth_plain.vcf")
            truth.write(plain)
            unph = os.path.join(tmp, "unphased.vcf")
            run_unphase(plain, unph)
            ivcf = os.path.join(tmp, "input.vcf.gz")
            pysam.tabix_compress(unph, ivcf, force=True)
            pysam.tabix_index(ivcf, preset="vcf", force=True)
            itext = open(unph).read()
        else:
            for r in inp.records:
                for si, call in enumerate(r["calls"]):
                    if "|" not in call["GT"]:
                        continue
                    if mode == "partial" and rng.random() < 0.35:
                        kept.add((r["chrom"], r["pos"], si))
                        if "PS" in call and rng.random() < 0.25:
                            call["PS"] = "."  # phased ('|') without a phase-set value: legal, one unnamed set
                        continue
                    a = sorted(call["GT"].split("|"))
                    call["GT"] = "/".join(a)
                    if "PS" in call:
                        call["PS"] = "."
            ivcf = os.path.join(tmp, "input.vcf.gz")
            inp.write(ivcf, compress=True)
            itext = inp.text()
        out = os.path.join(tmp, "result.vcf")
        try:
            run_haplotagphase(variant_file=ivcf, alignment_file=tagged, output=out, reference=sim.fasta, write_command_line_header=False, only_indels=only_indels)
        except Exception:
            tb = traceback.format_exc()
            if "EmptyAlignmentFileError" in tb:
                # nothing was left of the BAM after tagging a region: whatshap refuses an empty alignment file (documented)
                counters["skipped_empty_tagged_bam"] = counters.get("skipped_empty_tagged_bam", 0) + 1
                return [], False, desc
            return [{"mech": "crash:" + tb.strip().splitlines()[-1].split(":")[0], "msg": "run_haplotagphase raised: " + tb[-1500:]}], False, desc
        counters["runs_ok"] = counters.get("runs_ok", 0) + 1
        if retag:
            counters["runs_on_previously_tagged_bam"] = counters.get("runs_on_previously_tagged_bam", 0) + 1
        if linked:
            counters["linked_read_runs"] = counters.get("linked_read_runs", 0) + 1
        if only_indels:
            counters["only_indels_runs"] = counters.get("only_indels_runs", 0) + 1
        _, tsamples, trecs = vcftext.parse(truth.text())
        _, isamples, irecs = vcftext.parse(itext)
        _, osamples, orecs = vcftext.parse(open(out).read())
        viol = []
        if len(orecs) != len(trecs):
            return [{"mech": "record-count", "msg": "%d records in, %d out" % (len(trecs), len(orecs))}], False, desc
        n_votes = 0
        prev_key = None
        for rt, ri, ro in zip(trecs, irecs, orecs):
            this_key = (ri["chrom"], ri["pos"])
            for s in samples:
                ct, ci, co = rt["calls"][tsamples.index(s)], ri["calls"][isamples.index(s)], ro["calls"][osamples.index(s)]
                dt, di, do = vcftext.decode_ps(ct), vcftext.decode_ps(ci), vcftext.decode_ps(co)
                if di is not None:
                    counters["prephased_checked"] = counters.get("prephased_checked", 0) + 1
                    kind = ":multiallelic" if len(ri["alts"]) > 1 else ":duplicate-position" if prev_key == (ri["chrom"], ri["pos"]) else ""
                    if kind:
                        counters["prephased_checked" + kind.replace(":", "_").replace("-", "_")] = counters.get("prephased_checked" + kind.replace(":", "_").replace("-", "_"), 0) + 1
                    unnamed = ci.get("PS", ".") in (".", None)
                    if unnamed and do is not None and do[1] == di[1]:
                        # phased without a phase-set value in the input: the haplotype order must survive; which name the (unnamed) set
                        # gets in the output - none, 0, or the set of the reads that cover the variant - is not an alteration of the phase
                        counters["prephased_unnamed_kept"] = counters.get("prephased_unnamed_kept", 0) + 1
                    elif do != di:
                        viol.append({"mech": "prephased-variant-altered" + (":lost" if do is None else "") + kind,
                                     "msg": "%s %s:%d was phased in the input (%r), result has %r (call %r)" % (s, ro["chrom"], ro["pos"], di, do, co)})
                    continue
                if do is None:
                    continue
                n_votes += 1
                counters["phased_by_votes_checked"] = counters.get("phased_by_votes_checked", 0) + 1
                if dt is None:
                    viol.append({"mech": "phased-unknown", "msg": "%s %s:%d phased %r but the truth has no phase there" % (s, ro["chrom"], ro["pos"], do)})
                elif do[1] != dt[1]:
                    viol.append({"mech": "wrong-haplotype-order", "msg": "%s %s:%d phased %r, original %r" % (s, ro["chrom"], ro["pos"], do, dt)})
                elif do[0] != dt[0]:
                    viol.append({"mech": "wrong-phase-set", "msg": "%s %s:%d phased into set %r, the reads covering it carry set %r" % (s, ro["chrom"], ro["pos"], do[0], dt[0])})
            prev_key = this_key
        nt = n_votes >= 3 and (mode != "partial" or bool(kept))
        seen = set()
        viol = [x for x in viol if not (x["mech"] in seen or seen.add(x["mech"]))]
        return viol, nt, desc
    finally:
        shutil.rmtree(tmp, ignore_errors=True)


def run_case(idx, rng, tier, lane):
    counters = {}
    keys = set()
    viol = []
    sample = None
    for j in range(5):
        v, nt, desc = run_one(rng, counters)
        for x in v:
            x["data"] = desc
        viol += v
        if nt:
            keys.add(hashlib.sha1(json.dumps(desc, sort_keys=True, default=str).encode()).hexdigest()[:16])
        sample = desc
    seen = set()
    uniq = [x for x in viol if not (x["mech"] in seen or seen.add(x["mech"]))]
    return {"nontrivial": bool(keys), "key": sorted(keys), "violations": uniq, "counters": counters, "sample": sample, "case": None}
