"""C15 — polyphase output obeys the input genotypes and forms contiguous blocks."""
import hashlib
import json
import os
import shutil
import tempfile
import traceback

from wv import pipeline
from wv.gen import genome
from wv.gen import vcf as gvcf
from wv.oracle import vcfdiff, vcftext

ID = "C15"
LEVEL = "exploration"
RULE = (
    "Polyploid G-genome data: ploidy 2-4 (quick) / 2-6 (thorough), bi- and multi-allelic SNVs, 1-2 samples, collapsed "
    "(identical) haplotype copies, 1-3 contigs (optionally sharing coordinates; optionally a last contig on which a sample has <= 1 "
    "heterozygous variant or no reads), VCF genotypes that disagree with the reads (one allele copy replaced, also by an allele the "
    "reads never show), uneven coverage and coverage gaps, reads with 0-5% errors, block-cut sensitivity -B 0..5, "
    "--threads 1/2, --only-snvs, hostile extra records (multi-ALT, symbolic, duplicate positions) and pre-existing phase in the "
    "input; run through whatshap.cli.polyphase.run_polyphase with phase_single_individual interposed. Monitors: genotype "
    "conformance (own text parser: phased allele multiset == input multiset, only heterozygous calls phased), passthrough differ "
    "(htslib), interval/naming checker: with L = the ordered read-covered heterozygous variants of the sample (from the trace), "
    "the phase sets must be non-interleaving runs of L and each set id must be (1-based) the position of a variant of L that is "
    "not after the set's first phased variant and after the previous set's last variant. Non-trivial: a run with >=2 phase sets in "
    "a sample or a sample with ploidy >= 3 and >= 5 phased variants; distinct by hash of the run description."
)
REQUIRED_COUNTERS = ["runs_ok", "phased_calls_checked", "interval_checks", "hook_phase_single_individual"]
ASSUMPTIONS = ["genotypes are trusted (no --distrust-genotypes)"]
WATCHDOG = {"quick": 600, "thorough": 1800}

_CAP = {"calls": [], "installed": False, "hits": 0}


def lanes(tier):
    if tier == "quick":
        return [("plain", "plain", 96)]
    return [("plain", "plain", 3200), ("san", "san", 320)]


def _install():
    if _CAP["installed"]:
        return
    import whatshap.cli.polyphase as pp

    orig = pp.phase_single_individual

    def traced(readset, phasable_variant_table, sample, param, output, timers):
        _CAP["hits"] += 1
        res = orig(readset, phasable_variant_table, sample, param, output, timers)
        _CAP["calls"].append({"sample": sample, "chromosome": phasable_variant_table.chromosome,
                              "positions": [v.position for v in phasable_variant_table.variants], "components": dict(res[0])})
        return res

    pp.phase_single_individual = traced
    _CAP["installed"] = True


def run_one(rng, counters, tier):
    from whatshap.cli import CommandLineError
    from whatshap.cli.polyphase import run_polyphase

    _install()
    tmp = tempfile.mkdtemp(prefix="c15-", dir=os.environ.get("WV_SCRATCH"))
    try:
        P = rng.choice([2, 3, 3, 4, 4] if tier == "quick" else [2, 3, 4, 4, 5, 6])
        p = {"ploidy": P, "n_chrom": rng.choice([1, 1, 2, 3]), "shared_positions": rng.random() < 0.5, "dead_chrom": rng.choice([None, None, "hom", "noreads"]),
             "gt_noise": rng.choice([0.0, 0.0, 0.1, 0.3]), "adjacent_cut": rng.random() < 0.3, "gt_missing": rng.choice([0.0, 0.0, 0.08]), "chrom_len": rng.choice([2000, 3000]), "n_var": rng.randint(5, 22 if P <= 4 else 12),
             "samples": ["sampleA", "sampleB"][: rng.choice([1, 1, 2])], "depth": rng.choice([4, 8, 12]), "read_len": rng.choice([(150, 500), (300, 1200)]),
             "error_rate": rng.choice([0.0, 0.01, 0.05]), "multiallelic": rng.choice([0.0, 0.2]), "collapse": rng.choice([0.0, 0.5]),
             "coverage_gaps": rng.choice([0, 0, 1, 2]), "paired": rng.choice([0.0, 0.5, 1.0])}
        if rng.random() < 0.06:
            # very deep coverage (hundreds of reads per haplotype) on a handful of variants, genotypes that disagree with the reads
            p.update({"ploidy": rng.choice([2, 3]), "n_chrom": 1, "chrom_len": 500, "n_var": rng.randint(3, 5), "depth": rng.choice([150, 300]), "read_len": (300, 450),
                      "error_rate": 0.0, "gt_noise": 0.5, "coverage_gaps": 0, "paired": 0.0, "samples": ["sampleA"], "multiallelic": 0.0, "dead_chrom": None,
                      "adjacent_cut": False, "gt_missing": 0.0, "min_gap": 40})
            P = p["ploidy"]
        prephase = rng.random() < 0.2
        if prephase and p["chrom_len"] >= 2000 and rng.random() < 0.6:
            p["coverage_gaps"] = rng.choice([2, 3])  # several read-connected stretches for the long-range sets to straddle
            p["gaps_between_variants"] = True
            if rng.random() < 0.6:
                p["all_het_samples"] = [p["samples"][0]]  # pre-phasing and read matrix then cover the same variants
        sim = genome.simulate_poly(rng, tmp, p)
        hostile = rng.random() < 0.3 and not prephase
        if hostile:
            # extra records and pre-existing phase; genotypes stay of ploidy P
            new = []
            for r in sim.doc.records:
                if rng.random() < 0.15:
                    kind = rng.choice(["symbolic", "noalt", "dup", "mixeddup", "manyalt"])
                    if kind == "mixeddup":
                        # a multi-ALT record (one SNV allele, one longer allele) in front of the variant at the same position
                        ref, alts = r["ref"], [rng.choice([b for b in "ACGT" if b != r["ref"]]), r["ref"] + "TT"]
                        if rng.random() < 0.5:
                            alts.reverse()
                    elif kind == "manyalt":
                        # an STR-like record with 16-17 ALT alleles (more than a genotype object can hold) in front of the variant at the
                        # same position; the readers pass over it, so must the writer
                        ref, alts = r["ref"], [r["ref"] + "CA" * k_ for k_ in range(1, rng.choice([17, 18]))]
                    else:
                        ref, alts = (r["ref"], [rng.choice([b for b in "ACGT" if b != r["ref"]])]) if kind == "dup" else gvcf.random_ref_alt(rng, kind)
                    calls = [{"GT": "/".join(["0"] * P), "GQ": "30"} for _ in sim.doc.samples]
                    if kind == "manyalt":
                        calls = [{"GT": "/".join(["0"] * (P - 2) + ["3", "15"]), "GQ": "30"} for _ in sim.doc.samples]
                    x = {"chrom": r["chrom"], "pos": r["pos"], "id": ".", "ref": ref[:1] if kind not in ("dup", "mixeddup", "manyalt") else ref, "alts": alts, "qual": ".", "filter": ".", "info": ".",
                         "fmt": ["GT", "GQ"], "calls": calls, "kind": kind}
                    if kind == "dup":
                        new.append(r)
                        new.append(x)
                        continue
                    new.append(x)
                new.append(r)
            sim.doc.records = new
            sim.doc.meta = sim.doc.meta[:1] + ['##ALT=<ID=DEL,Description="d">', '##ALT=<ID=INS,Description="i">', '##ALT=<ID=DUP,Description="u">',
                                               '##INFO=<ID=END,Number=1,Type=Integer,Description="End">'] + sim.doc.meta[1:]
            sim.doc.write(sim.vcf)
        opts = {"ploidy": P, "block_cut_sensitivity": rng.choice([0, 1, 2, 3, 4, 4, 5]), "threads": rng.choice([1, 1, 2]), "tag": "PS",
                "only_snvs": rng.random() < 0.15}
        if len(p["samples"]) > 1 and rng.random() < 0.3:
            opts["samples"] = [p["samples"][0]]
        if p["n_chrom"] > 1 and rng.random() < 0.35:
            # --chromosome: a subset (in any position of the file), the rest of the VCF has to be passed through
            opts["chromosomes"] = rng.sample(sim.chroms, rng.randint(1, len(sim.chroms) - 1))
        vcf_in = sim.vcf
        doc_in = sim.doc
        if prephase:
            # --use-prephasing with a partial pre-phasing from "another source": some calls left unphased, a sample possibly
            # without any, long-range sets that continue behind a set nested in their gap
            doc_in, _ = genome.truth_phased_doc_poly(sim, rng, block_len=(2, 8), straddle=rng.choice([0.5, 1.0]) if p.get("gaps_between_variants") else rng.choice([0.0, 0.5]),
                                                     cut_at_gaps=bool(p.get("gaps_between_variants")))
            raw = rng.choice([None, None, 0]) if not p.get("all_het_samples") else None
            frac = rng.choice([0.0, 0.1, 0.5]) if not p.get("all_het_samples") else 0.0
            for r in doc_in.records:
                for ci, call in enumerate(r["calls"]):
                    if "|" in call.get("GT", "") and (ci == raw or rng.random() < frac):
                        call["GT"] = "/".join(sorted(call["GT"].split("|")))
                        call["PS"] = "."
            vcf_in = os.path.join(tmp, "prephased.vcf")
            doc_in.write(vcf_in)
            opts["use_prephasing"] = True
        desc = {"params": p, "options": opts, "hostile": hostile}
        if hostile and not vcfdiff.htslib_roundtrips(sim.vcf, os.path.join(tmp, "rt.vcf")):
            return [], False, desc
        out = os.path.join(tmp, "out.vcf")
        del _CAP["calls"][:]
        try:
            run_polyphase(phase_input_files=list(sim.bams), variant_file=vcf_in, reference=sim.fasta, output=out, write_command_line_header=False, **opts)
        except CommandLineError as e:
            counters["refused"] = counters.get("refused", 0) + 1
            return [], False, desc
        except Exception:
            tb = traceback.format_exc()
            return [{"mech": "crash:" + tb.strip().splitlines()[-1].split(":")[0], "msg": "run_polyphase raised: " + tb[-1500:]}], False, desc
        counters["runs_ok"] = counters.get("runs_ok", 0) + 1
        if p["depth"] >= 150:
            counters["runs_with_very_deep_coverage"] = counters.get("runs_with_very_deep_coverage", 0) + 1
        counters["genotype_noise_sites"] = counters.get("genotype_noise_sites", 0) + getattr(sim, "gt_noise_sites", 0)
        if opts.get("chromosomes"):
            counters["runs_with_chromosome_selection"] = counters.get("runs_with_chromosome_selection", 0) + 1
        if p["n_chrom"] > 1 and p["dead_chrom"]:
            counters["runs_with_unphasable_chromosome"] = counters.get("runs_with_unphasable_chromosome", 0) + 1
        calls = list(_CAP["calls"])
        text = open(out).read()
        viol = []
        meta, osamples, orecs = vcftext.parse(text)
        _, isamples, irecs = vcftext.parse(doc_in.text())
        if opts.get("use_prephasing"):
            counters["runs_with_prephasing"] = counters.get("runs_with_prephasing", 0) + 1
        targets = opts.get("samples") or p["samples"]
        in_gt = {}
        for ri in doc_in.records:
            if ri.get("kind") != "snv":
                continue  # hostile extra records (symbolic / no ALT / second record of a position) are not read as variants
            for k_, s_ in enumerate(sim.doc.samples):
                in_gt.setdefault((s_, ri["chrom"], ri["pos"]), vcftext.split_gt(ri["calls"][k_].get("GT"))[0])
        nt = False
        if len(orecs) != len(irecs):
            viol.append({"mech": "record-count", "msg": "%d records in, %d out" % (len(irecs), len(orecs))})
        for s in targets:
            si = osamples.index(s)
            sets = {}
            nphased = 0
            for ri, ro in zip(irecs, orecs):
                d = vcftext.decode_call(ro["calls"][si])
                if d is None:
                    continue
                if ro["calls"][si] == ri["calls"][si] and not any(c_["sample"] == s and c_["chromosome"] == ro["chrom"] for c_ in calls):
                    # phase that was already in the input (pre-phasing), on a chromosome that was passed through as a whole
                    # (not selected, or nothing to phase for this sample): not a genotype "phased by polyphase"
                    counters["prephased_calls_passed_through"] = counters.get("prephased_calls_passed_through", 0) + 1
                    continue
                counters["phased_calls_checked"] = counters.get("phased_calls_checked", 0) + 1
                nphased += 1
                gin, _ = vcftext.split_gt(ri["calls"][si].get("GT"))
                al = d[2]
                if al is None or sorted(al) != sorted(gin):
                    viol.append({"mech": "genotype-changed", "msg": "%s %s:%d input genotype %r, phased as %r" % (s, ro["chrom"], ro["pos"], gin, al)})
                if len(set(gin)) < 2:
                    viol.append({"mech": "homozygous-phased", "msg": "%s %s:%d homozygous %r phased" % (s, ro["chrom"], ro["pos"], gin)})
                sets.setdefault((ro["chrom"], d[1]), []).append(ro["pos"] - 1)
                if opts.get("chromosomes") and ro["chrom"] not in opts["chromosomes"]:
                    viol.append({"mech": "phased-on-unselected-chromosome", "msg": "%s %s:%d phased although --chromosome selects %r" % (s, ro["chrom"], ro["pos"], opts["chromosomes"])})
            # intervals
            for chrom in sim.chroms:
                tr = [c for c in calls if c["sample"] == s and c["chromosome"] == chrom]
                if not tr:
                    if any(k[0] == chrom for k in sets):
                        viol.append({"mech": "phased-without-solver-call", "msg": "%s %s has phased calls but phase_single_individual was not reached" % (s, chrom)})
                    continue
                Lpos = tr[-1]["positions"]
                # what the solver is given must be heterozygous calls of this very sample (own parse of the input)
                for q in Lpos:
                    gq = in_gt.get((s, chrom, q + 1))
                    if gq is None or "." in gq or len(set(gq)) < 2:
                        viol.append({"mech": "solver-given-non-heterozygous-site", "msg": "%s %s:%d (input genotype %r) is among the variants handed to phase_single_individual" % (s, chrom, q + 1, gq)})
                        break
                order = {q: k for k, q in enumerate(Lpos)}
                csets = sorted(((b, sorted(v)) for (c2, b), v in sets.items() if c2 == chrom), key=lambda t: t[1][0])
                counters["interval_checks"] = counters.get("interval_checks", 0) + 1
                prev_last = -1
                for b, members in csets:
                    if any(q not in order for q in members):
                        viol.append({"mech": "phased-not-read-covered", "msg": "%s %s set %s contains %r which is not among the read-covered heterozygous variants" % (s, chrom, b, [q + 1 for q in members if q not in order][:3])})
                        continue
                    idx = [order[q] for q in members]
                    if min(idx) <= prev_last:
                        viol.append({"mech": "interleaved-sets", "msg": "%s %s phase set %s (variants %r) starts before the previous set ended" % (s, chrom, b, [q + 1 for q in members][:5])})
                    if (b - 1) not in order:
                        viol.append({"mech": "set-id-not-a-variant", "msg": "%s %s phase set id %s is not the position of a read-covered heterozygous variant" % (s, chrom, b)})
                    else:
                        k = order[b - 1]
                        if k > min(idx) or k <= prev_last:
                            viol.append({"mech": "set-id-not-first-of-interval", "msg": "%s %s phase set %s: first phased variant %d, previous set ended at index %d, id index %d" % (s, chrom, b, members[0] + 1, prev_last, k)})
                    prev_last = max(idx)
                if len(csets) >= 2:
                    nt = True
            if P >= 3 and nphased >= 5:
                nt = True
        # passthrough
        viol += pipeline.judge_passthrough(vcf_in, out, doc_in, set(targets), set(opts.get("chromosomes") or []), opts["tag"], opts["only_snvs"], False, counters, allow_multiallelic=True)
        seen = set()
        viol = [x for x in viol if not (x["mech"] in seen or seen.add(x["mech"]))]
        return viol, nt, desc
    finally:
        shutil.rmtree(tmp, ignore_errors=True)


def run_case(idx, rng, tier, lane):
    counters = {}
    keys = set()
    viol = []
    sample = None
    h0 = _CAP["hits"]
    for j in range(5 if lane == "plain" else 3):
        v, nt, desc = run_one(rng, counters, tier)
        for x in v:
            x["data"] = desc
        viol += v
        if nt:
            keys.add(hashlib.sha1(json.dumps(desc, sort_keys=True, default=str).encode()).hexdigest()[:16])
        sample = desc
    counters["hook_phase_single_individual"] = _CAP["hits"] - h0
    seen = set()
    uniq = [x for x in viol if not (x["mech"] in seen or seen.add(x["mech"]))]
    return {"nontrivial": bool(keys), "key": sorted(keys), "violations": uniq, "counters": counters, "sample": sample, "case": None}
