"""C11 — compare reports the defined error counts, independent of haplotype labelling."""
import contextlib
import hashlib
import io
import itertools
import json
import os
import shutil
import tempfile
import traceback

from wv.gen import vcf as gvcf

ID = "C11"
LEVEL = "exploration"
RULE = (
    "G-phasing: 2 or 3 PS-phased VCFs over common biallelic SNVs on 1-2 chromosomes, ploidy 2, 3 or 4, block structures "
    "consecutive / interleaved / nested, phase = a hidden truth with planted switches, flips and switch runs of length 1-6 near "
    "block starts, middles and ends, unphased and homozygous calls mixed in, differing genotypes (polyploid), identical files; run "
    "through whatshap.cli.compare.run_compare with --tsv-pairwise, --longest-block-tsv, --switch-error-bed (ploidy 2) and "
    "--tsv-multiway (3 files). Oracle O-compare: own intersection blocks (joint PS tuples over common heterozygous variants); "
    "diploid: switch positions, run-length switch/flip decomposition, Hamming = min over the two orientations; polyploid: "
    "exhaustive DP over all P! haplotype permutations per position (no pruning) for the switch-only objective on "
    "genotype-matching positions and for the joint objective (sum), Hamming = min over permutations; identity switches = s + 2f "
    "(diploid); zero for identical inputs; metamorphic rerun with the haplotypes of random phase sets permuted in either file; "
    "#disagreements in the longest-block file == reported Hamming distance of the largest block; BED line count == switches; "
    "multiway histogram recomputed by definition. Non-trivial: >=1 intersection block with >=3 variants and >=1 error; distinct "
    "by hash of the input files."
)
REQUIRED_COUNTERS = ["runs_ok", "pairwise_rows_checked", "blocks_checked", "permutation_reruns", "longest_block_files_checked", "poly_blocks_checked", "poly_relabellings_checked"]
ASSUMPTIONS = [
    "for ploidy > 2 only the minimal SUM of the joint switch/flip objective is defined; the reported split is not judged",
    "largest block = first intersection block (in order of first variant) of maximal size",
]
SAN_OK = True


def lanes(tier):
    if tier == "quick":
        return [("plain", "plain", 200), ("san", "san", 40), ("poly", "plain", 160), ("polysan", "san", 32)]
    return [("plain", "plain", 6000), ("san", "san", 800), ("poly", "plain", 10000), ("polysan", "san", 1000), ("vg-san", "vg", 8), ("vg-polysan", "vg", 8)]


def run_poly_direct(rng, counters):
    """whatshap.cli.compare.compare_block on random noisy polyploid blocks vs. the definitional DP, plus relabelling."""
    from whatshap.cli.compare import compare_block

    P = rng.choice([3, 4, 4, 4])
    n = rng.randint(2, 9 if P == 3 else 8)
    truth = [[rng.randint(0, 1) for _ in range(n)] for _ in range(P)]
    h1 = ["".join(str(x) for x in row) for row in truth]
    # phasing0 = truth with switches (permutation changes), flips and noise
    perm = list(range(P))
    rng.shuffle(perm)
    cols = []
    noise = rng.choice([0.0, 0.05, 0.15, 0.3])
    for i in range(n):
        if rng.random() < rng.choice([0.1, 0.3, 0.5]):
            x, y = rng.sample(range(P), 2)
            perm[x], perm[y] = perm[y], perm[x]
        col = [truth[perm[h]][i] for h in range(P)]
        for h in range(P):
            if rng.random() < noise:
                col[h] = 1 - col[h]
        cols.append(col)
    h0 = ["".join(str(cols[i][h]) for i in range(n)) for h in range(P)]
    exp = o_block_poly(h0, h1, P)
    got = compare_block(h0, h1)
    counters["poly_blocks_checked"] = counters.get("poly_blocks_checked", 0) + 1
    bad = []
    if abs(got.hamming - exp["hamming"]) > 1e-9:
        bad.append("hamming %s vs definition %s" % (got.hamming, exp["hamming"]))
    if got.diff_genotypes != exp["diff_gt"]:
        bad.append("diff_genotypes %s vs %s" % (got.diff_genotypes, exp["diff_gt"]))
    if exp["switches"] is not None and abs(got.switches - exp["switches"]) > 1e-9:
        bad.append("switches %s vs minimal switch-only cost %s on %d genotype-matching positions" % (got.switches, exp["switches"], exp["n_match"]))
    js = got.switch_flips.switches + got.switch_flips.flips
    if abs(js - exp["joint_sum"]) > 1e-9:
        bad.append("switch/flip %s sums to %s, minimal joint cost %s" % (got.switch_flips, js, exp["joint_sum"]))
    viol = []
    if bad:
        viol.append({"mech": "poly-block-mismatch", "msg": "ploidy %d block %r vs %r: %s" % (P, h0, h1, "; ".join(bad)), "data": {"h0": h0, "h1": h1}})
    else:
        # relabelling: any order of the haplotypes of either phasing gives the same numbers
        for _ in range(3):
            a = h0[:]
            b = h1[:]
            rng.shuffle(a)
            rng.shuffle(b)
            g2 = compare_block(a, b)
            counters["poly_relabellings_checked"] = counters.get("poly_relabellings_checked", 0) + 1
            if (abs(g2.hamming - got.hamming) > 1e-9 or abs(g2.switches - got.switches) > 1e-9
                    or abs(g2.switch_flips.switches + g2.switch_flips.flips - js) > 1e-9):
                viol.append({"mech": "poly-depends-on-haplotype-order", "msg": "ploidy %d: %r vs %r gives %r, relabelled %r vs %r gives %r" % (P, h0, h1, got, a, b, g2),
                             "data": {"h0": h0, "h1": h1, "a": a, "b": b}})
                break
    nt = exp["joint_sum"] > 0 and n >= 3
    return viol, nt, (P, tuple(h0), tuple(h1))


# ------------------------------------------------------------------ generator


def gen_case(rng):
    P = rng.choice([2, 2, 2, 3, 4])
    nfiles = 3 if (P == 2 and rng.random() < 0.3) else 2
    chroms = ["chr1", "chr2"][: rng.choice([1, 1, 2])]
    files = [[] for _ in range(nfiles)]  # per file: list of records (chrom, pos, gt string, ps)
    identical = rng.random() < 0.08
    multi = P == 2 and rng.random() < 0.35  # diploid files with multi-allelic heterozygous genotypes
    only_snvs = rng.random() < 0.1
    alts = {}
    for c in chroms:
        n = rng.randint(2, 14 if P == 2 else 7)
        pos = sorted(rng.sample(range(10, 5000), n))
        truth = []
        for _ in range(n):
            if P == 2:
                if multi and rng.random() < 0.3:
                    # a tri-allelic site: heterozygous 1|2 or 0|2
                    t = rng.choice([(1, 2), (2, 1), (0, 2), (2, 0)])
                    al = ["C", "G"]
                    if rng.random() < 0.35:
                        # three ALT alleles: different heterozygous genotypes can have the same sum of allele indices (0|3 vs 1|2)
                        al = ["C", "G", "T"]
                        t = tuple(rng.sample(range(4), 2))
                    elif rng.random() < 0.25 and not only_snvs:
                        # an STR-like site with many ALT alleles: allele indices of two digits (10..15)
                        k = rng.randint(10, 15)
                        al = ["A" + "CA" * j for j in range(1, k + 1)]
                        t = rng.choice([(1, k), (k, 1), (0, k), (k, k - 1), (10, 2)])
                    truth.append(t)
                    alts[(c, pos[len(truth) - 1])] = al
                else:
                    a = rng.randint(0, 1)
                    truth.append((a, 1 - a))
            else:
                while True:
                    t = tuple(rng.randint(0, 1) for _ in range(P))
                    if len(set(t)) > 1:
                        break
                truth.append(t)
        base_blocks = None
        for f in range(nfiles):
            # block structure: assign a block id to every variant
            mode = rng.choice(["one", "consecutive", "consecutive", "interleaved", "nested"])
            ids = []
            if mode == "one":
                ids = [pos[0]] * n
            elif mode == "consecutive":
                cur = pos[0]
                for i in range(n):
                    if i and rng.random() < 0.25:
                        cur = pos[i]
                    ids.append(cur)
            elif mode == "interleaved":
                a, b = pos[0], pos[min(1, n - 1)]
                for i in range(n):
                    ids.append(a if (i == 0 or rng.random() < 0.5) else b)
            else:
                inner_lo = rng.randrange(0, n)
                inner_hi = rng.randrange(inner_lo, n)
                for i in range(n):
                    ids.append(pos[inner_lo] if inner_lo <= i <= inner_hi and inner_lo > 0 else pos[0])
            if identical and f > 0:
                files[f] += [r for r in files[0] if r[0] == c]
                continue
            # per block: orientation permutation + planted errors
            perm = {}
            cur_perm = {}
            recs = []
            run = 0
            for i in range(n):
                b = ids[i]
                if b not in cur_perm:
                    p = list(range(P))
                    rng.shuffle(p)
                    cur_perm[b] = p
                if f > 0 or rng.random() < 0.3:
                    r = rng.random()
                    if run > 0:
                        run -= 1
                        p = cur_perm[b][:]
                        x, y = rng.sample(range(P), 2)
                        p[x], p[y] = p[y], p[x]
                        cur_perm[b] = p
                    elif r < 0.15:
                        p = cur_perm[b][:]
                        x, y = rng.sample(range(P), 2)
                        p[x], p[y] = p[y], p[x]
                        cur_perm[b] = p  # a switch from here on
                        if rng.random() < 0.4:
                            run = rng.randint(1, 5)  # a run of consecutive switches
                t = truth[i]
                if P == 2 and f > 0 and max(t) >= 2 and rng.random() < 0.25:
                    # this file calls another heterozygous genotype at the multi-allelic site (0|2 where the others have 1|2, ...)
                    na = min(len(alts.get((c, pos[i]), ["C", "G"])), 4)
                    t = rng.choice([(x, y) for x in range(na + 1) for y in range(na + 1) if x != y and sorted((x, y)) != sorted(t)])
                al = tuple(t[cur_perm[b][h]] for h in range(P))
                if P > 2 and rng.random() < 0.08:
                    al = list(al)
                    k = rng.randrange(P)
                    al[k] = 1 - al[k]  # differing genotype / flip error
                    al = tuple(al)
                    if len(set(al)) == 1:
                        al = tuple(t[cur_perm[b][h]] for h in range(P))
                r2 = rng.random()
                if r2 < 0.08:
                    gt = "/".join(str(x) for x in sorted(al))  # unphased het
                    recs.append((c, pos[i], gt, None))
                elif r2 < 0.12:
                    recs.append((c, pos[i], "/".join(["0"] * P), None))  # homozygous
                else:
                    recs.append((c, pos[i], "|".join(str(x) for x in al), b))
            files[f] += recs
    return {"ploidy": P, "files": files, "chroms": chroms, "only_snvs": only_snvs, "bystander": rng.random() < 0.15, "alts": {"%s:%d" % k: v for k, v in alts.items()}}


def write_file(records, path, sample="sampleX", alts=None, bystander=None):
    """bystander: name of a second sample in the file that is not compared and carries haploid calls (a male sample on chrX)."""
    d = gvcf.Doc()
    d.samples = [sample] + ([bystander] if bystander else [])
    d.meta = ["##fileformat=VCFv4.2", "##contig=<ID=chr1,length=100000>", "##contig=<ID=chr2,length=100000>",
              '##FORMAT=<ID=GT,Number=1,Type=String,Description="Genotype">',
              '##FORMAT=<ID=PS,Number=1,Type=Integer,Description="Phase set">']
    for c, pos, gt, ps in records:
        d.records.append({"chrom": c, "pos": pos, "id": ".", "ref": "A", "alts": (alts or {}).get("%s:%d" % (c, pos), ["C"]), "qual": ".", "filter": ".", "info": ".",
                          "fmt": ["GT", "PS"], "calls": [{"GT": gt, "PS": str(ps) if ps is not None else "."}] + ([{"GT": str(pos % 2), "PS": "."}] if bystander else [])})
    d.write(path)


# ------------------------------------------------------------------ oracle


def comp(s):
    return "".join("1" if x == "0" else "0" for x in s)


def ham(a, b):
    return sum(x != y for x, y in zip(a, b))


def sw_enc(s):
    return "".join("0" if s[i - 1] == s[i] else "1" for i in range(1, len(s)))


def o_block_diploid(a, b):
    sa, sb = sw_enc(a), sw_enc(b)
    diff = [x != y for x, y in zip(sa, sb)]
    switches = sum(diff)
    s = f = 0
    run = 0
    for d in diff + [False]:
        if d:
            run += 1
        else:
            f += run // 2
            s += run % 2
            run = 0
    return {"switches": switches, "sf": (s, f), "hamming": min(ham(a, b), ham(a, comp(b))), "diff_gt": 0, "switch_idx": [i for i, d in enumerate(diff) if d]}


def o_block_poly(h0, h1, P):
    n = len(h0[0])
    perms = list(itertools.permutations(range(P)))
    hamming = min(sum(ham(h1[i], h0[p[i]]) for i in range(P)) for p in perms) / float(P)
    match = [i for i in range(n) if sorted(x[i] for x in h0) == sorted(x[i] for x in h1)]

    def dp(cols, flip_cost):
        if not cols:
            return 0
        INF = 10**9
        prev = None
        for i in cols:
            cur = {}
            for p in perms:
                fl = sum(1 for h in range(P) if h0[p[h]][i] != h1[h][i])
                if flip_cost is None and fl:
                    continue
                c = fl * (flip_cost or 0)
                if prev is None:
                    cur[p] = c
                else:
                    best = min((prev[q] + sum(1 for h in range(P) if q[h] != p[h]) for q in prev), default=INF)
                    if best < INF:
                        cur[p] = best + c
            prev = cur
            if not prev:
                return None
        return min(prev.values())

    sw_only = dp(match, None)
    joint = dp(list(range(n)), 1)
    return {"switches": None if sw_only is None else sw_only / float(P), "joint_sum": joint / float(P), "hamming": hamming, "diff_gt": n - len(match), "n_match": len(match)}


def o_compare(case, pair):
    """Expected per-chromosome pairwise numbers for files pair=(i,j)."""
    P = case["ploidy"]
    out = {}
    for c in case["chroms"]:
        per = []
        for f in pair:
            d = {}
            for cc, pos, gt, ps in case["files"][f]:
                if cc != c:
                    continue
                if pos in d:
                    continue
                al = gt.replace("|", "/").split("/")
                d[pos] = (al, ps if "|" in gt else None)
            per.append(d)
        common = sorted(p for p in per[0] if p in per[1] and len(set(per[0][p][0])) > 1 and len(set(per[1][p][0])) > 1)
        inter = {}
        for p in common:
            if per[0][p][1] is None or per[1][p][1] is None:
                continue
            inter.setdefault((per[0][p][1], per[1][p][1]), []).append(p)
        tot = {"blocks": 0, "covered": 0, "pairs": 0, "switches": 0, "sf": [0, 0], "hamming": 0, "diff_gt": 0, "joint_sum": 0, "bed": 0}
        largest = None
        for key, ps_ in inter.items():
            if len(ps_) < 2:
                continue
            h0 = ["".join(per[0][p][0][h] for p in ps_) for h in range(P)]
            h1 = ["".join(per[1][p][0][h] for p in ps_) for h in range(P)]
            if P == 2:
                # orientation of the heterozygous genotype: 0 = the smaller allele is on the haplotype listed first
                b0 = "".join("0" if int(per[0][p][0][0]) < int(per[0][p][0][1]) else "1" for p in ps_)
                b1 = "".join("0" if int(per[1][p][0][0]) < int(per[1][p][0][1]) else "1" for p in ps_)
                r = o_block_diploid(b0, b1)
                # a multi-allelic site can be heterozygous in both files with different genotypes (0|1 vs 0|2)
                r["diff_gt"] = sum(1 for p in ps_ if sorted(per[0][p][0]) != sorted(per[1][p][0]))
                tot["sf"][0] += r["sf"][0]
                tot["sf"][1] += r["sf"][1]
                tot["bed"] += r["switches"]
            else:
                r = o_block_poly(h0, h1, P)
                tot["joint_sum"] += r["joint_sum"]
            r["n"] = len(ps_)
            r["positions"] = ps_
            tot["blocks"] += 1
            tot["covered"] += len(ps_)
            tot["pairs"] += len(ps_) - 1
            tot["switches"] += r["switches"] if r["switches"] is not None else 0
            tot["hamming"] += r["hamming"]
            tot["diff_gt"] += r["diff_gt"]
            if largest is None or len(ps_) > largest["n"]:
                largest = r
        out[c] = {"tot": tot, "largest": largest, "n_common": len(common)}
    return out


def o_multiway(case):
    out = {}
    n = len(case["files"])
    for c in case["chroms"]:
        per = []
        for f in range(n):
            d = {}
            for cc, pos, gt, ps in case["files"][f]:
                if cc == c and pos not in d:
                    d[pos] = (gt.replace("|", "/").split("/"), ps if "|" in gt else None)
            per.append(d)
        common = sorted(p for p in per[0] if all(p in d and len(set(d[p][0])) > 1 for d in per))
        inter = {}
        for p in common:
            if any(d[p][1] is None for d in per):
                continue
            inter.setdefault(tuple(d[p][1] for d in per), []).append(p)
        hist = {}
        for ps_ in inter.values():
            if len(ps_) < 2:
                continue
            encs = [sw_enc("".join("0" if int(d[p][0][0]) < int(d[p][0][1]) else "1" for p in ps_)) for d in per]
            for i in range(len(ps_) - 1):
                s = "".join(e[i] for e in encs)
                s = min(s, comp(s))
                hist[s] = hist.get(s, 0) + 1
        out[c] = hist
    return out


# ------------------------------------------------------------------ running


def run_compare_files(paths, P, tmp, tagname, only_snvs, want_aux=True, sample=None):
    from whatshap.cli.compare import run_compare

    outs = {"pair": os.path.join(tmp, tagname + ".pair.tsv")}
    kw = dict(vcf=paths, ploidy=P, tsv_pairwise=outs["pair"], only_snvs=only_snvs)
    if sample:
        kw["sample"] = sample
    if P == 2 and want_aux:
        outs["bed"] = kw["switch_error_bed"] = os.path.join(tmp, tagname + ".bed")
        if len(paths) == 2:
            outs["longest"] = kw["longest_block_tsv"] = os.path.join(tmp, tagname + ".longest.tsv")
        if len(paths) == 3:
            outs["multi"] = kw["tsv_multiway"] = os.path.join(tmp, tagname + ".multi.tsv")
    with contextlib.redirect_stdout(io.StringIO()):
        run_compare(**kw)
    rows = []
    with open(outs["pair"]) as fh:
        head = fh.readline().rstrip("\n").split("\t")
        for l in fh:
            rows.append(dict(zip(head, l.rstrip("\n").split("\t"))))
    return rows, outs


def _f(x):
    return float(x)


def check_case(case, tmp, counters, rng):
    P = case["ploidy"]
    viol = []
    paths = []
    # in some runs the files carry a second sample that is not compared and has haploid calls; the compared sample is named then
    bystander = "male_bystander" if (P == 2 and case.get("bystander")) else None
    sample_arg = "sampleX" if bystander else None
    for k, recs in enumerate(case["files"]):
        p = os.path.join(tmp, "f%d.vcf" % k)
        write_file(recs, p, alts=case.get("alts"), bystander=bystander if k != 1 else None)
        paths.append(p)
    if bystander:
        counters["runs_with_haploid_bystander_sample"] = counters.get("runs_with_haploid_bystander_sample", 0) + 1
    try:
        rows, outs = run_compare_files(paths, P, tmp, "orig", case["only_snvs"], sample=sample_arg)
    except Exception:
        tb = traceback.format_exc()
        if "CommandLineError" in tb and "No chromosome" in tb:
            return None, []
        return False, [{"mech": "crash:" + tb.strip().splitlines()[-1].split(":")[0], "msg": "run_compare raised: " + tb[-1200:]}]
    counters["runs_ok"] = counters.get("runs_ok", 0) + 1
    nontrivial = False
    names = ["file%d" % k for k in range(len(paths))]
    for row in rows:
        i, j = names.index(row["dataset_name0"]), names.index(row["dataset_name1"])
        exp = o_compare(case, (i, j))[row["chromosome"]]
        t = exp["tot"]
        counters["pairwise_rows_checked"] = counters.get("pairwise_rows_checked", 0) + 1
        counters["blocks_checked"] = counters.get("blocks_checked", 0) + t["blocks"]
        bad = []

        def cmp(field, want, tol=1e-9):
            got = row[field]
            if abs(_f(got) - want) > tol:
                bad.append("%s: reported %s, definition gives %s" % (field, got, want))

        cmp("intersection_blocks", t["blocks"])
        cmp("covered_variants", t["covered"])
        cmp("all_assessed_pairs", t["pairs"])
        cmp("blockwise_hamming", t["hamming"])
        cmp("blockwise_diff_genotypes", t["diff_gt"])
        cmp("all_switches", t["switches"])
        sfs, sff = [_f(x) for x in row["all_switchflips"].split("/")]
        if P == 2:
            if (sfs, sff) != (t["sf"][0], t["sf"][1]):
                bad.append("all_switchflips: reported %s, run-length decomposition gives %d/%d" % (row["all_switchflips"], t["sf"][0], t["sf"][1]))
            if _f(row["all_switches"]) != sfs + 2 * sff:
                bad.append("identity switches = s + 2f broken: %s vs %s" % (row["all_switches"], row["all_switchflips"]))
        else:
            if abs((sfs + sff) - t["joint_sum"]) > 1e-9:
                bad.append("all_switchflips %s sums to %s, minimal joint cost is %s" % (row["all_switchflips"], sfs + sff, t["joint_sum"]))
        L = exp["largest"]
        if L is not None:
            cmp("largestblock_assessed_pairs", L["n"] - 1)
            cmp("largestblock_hamming", L["hamming"])
            cmp("largestblock_diff_genotypes", L["diff_gt"])
            if L["switches"] is not None:
                cmp("largestblock_switches", L["switches"])
            if L["n"] >= 3 and (t["switches"] > 0 or t["hamming"] > 0):
                nontrivial = True
        if bad:
            mech = "count-mismatch"
            if P > 2 and all(b.startswith(("all_switches", "largestblock_switches")) for b in bad):
                # alternative model: one genotype-matching position in a block is charged (P-1)/P
                mech = "count-mismatch:poly-switches"
            viol.append({"mech": mech, "msg": "ploidy %d %s %s<->%s: %s" % (P, row["chromosome"], row["dataset_name0"], row["dataset_name1"], "; ".join(bad[:4]))})
    # identical inputs
    if len(paths) >= 2 and case["files"][0] == case["files"][1]:
        for row in rows:
            if row["dataset_name0"] == "file0" and row["dataset_name1"] == "file1":
                for k in ("all_switches", "blockwise_hamming", "blockwise_diff_genotypes"):
                    if _f(row[k]) != 0:
                        viol.append({"mech": "nonzero-for-identical", "msg": "%s = %s for identical inputs" % (k, row[k])})
                counters["identical_pairs_checked"] = counters.get("identical_pairs_checked", 0) + 1
    # auxiliary files
    if "longest" in outs and not viol:
        agree = {}
        with open(outs["longest"]) as fh:
            next(fh)
            for l in fh:
                f = l.rstrip("\n").split("\t")
                agree.setdefault(f[3], []).append(int(f[5]))
        for row in rows:
            c = row["chromosome"]
            dis = sum(1 for a in agree.get(c, []) if a == 0)
            counters["longest_block_files_checked"] = counters.get("longest_block_files_checked", 0) + 1
            if len(agree.get(c, [])) != int(row["largestblock_assessed_pairs"]) + (1 if agree.get(c) else 0) and agree.get(c):
                viol.append({"mech": "longest-block-length", "msg": "%s longest-block file has %d positions, largest block has %s pairs" % (c, len(agree[c]), row["largestblock_assessed_pairs"])})
            if dis != int(_f(row["largestblock_hamming"])):
                viol.append({"mech": "longest-block-agreement-vs-hamming", "msg": "%s: longest-block file marks %d disagreements of %d positions, reported Hamming distance of the largest block is %s" % (c, dis, len(agree.get(c, [])), row["largestblock_hamming"])})
    if "bed" in outs and not viol and len(paths) == 2:
        nbed = {}
        with open(outs["bed"]) as fh:
            for l in fh:
                nbed[l.split("\t")[0]] = nbed.get(l.split("\t")[0], 0) + 1
        for row in rows:
            if nbed.get(row["chromosome"], 0) != int(_f(row["all_switches"])):
                viol.append({"mech": "bed-vs-switches", "msg": "%s: %d BED records, %s switch errors" % (row["chromosome"], nbed.get(row["chromosome"], 0), row["all_switches"])})
        counters["bed_files_checked"] = counters.get("bed_files_checked", 0) + 1
    if "multi" in outs and not viol:
        exp = o_multiway(case)
        got = {}
        with open(outs["multi"]) as fh:
            next(fh)
            for l in fh:
                f = l.rstrip("\n").split("\t")
                left = f[2].strip("{}").split(",") if f[2].strip("{}") else []
                s = "".join("0" if n in left else "1" for n in names)
                got.setdefault(f[1], {})[min(s, comp(s))] = int(f[4])
        for c in case["chroms"]:
            if got.get(c, {}) != exp[c]:
                viol.append({"mech": "multiway", "msg": "%s multiway histogram %r, by definition %r" % (c, got.get(c, {}), exp[c])})
        counters["multiway_checked"] = counters.get("multiway_checked", 0) + 1
    # metamorphic: permute haplotypes within random phase sets of either file
    if not viol:
        case2 = {"ploidy": P, "chroms": case["chroms"], "files": [], "only_snvs": case["only_snvs"]}
        for recs in case["files"]:
            perms = {}
            new = []
            for c, pos, gt, ps in recs:
                if ps is None:
                    new.append((c, pos, gt, ps))
                    continue
                if (c, ps) not in perms:
                    p = list(range(P))
                    if rng.random() < 0.7:
                        rng.shuffle(p)
                    perms[(c, ps)] = p
                al = gt.split("|")
                new.append((c, pos, "|".join(al[k] for k in perms[(c, ps)]), ps))
            case2["files"].append(new)
        paths2 = []
        for k, recs in enumerate(case2["files"]):
            p = os.path.join(tmp, "g%d.vcf" % k)
            write_file(recs, p, alts=case.get("alts"))
            paths2.append(p)
        try:
            rows2, _ = run_compare_files(paths2, P, tmp, "perm", case["only_snvs"], want_aux=False)
        except Exception:
            tb = traceback.format_exc()
            return nontrivial, [{"mech": "crash-permuted", "msg": tb[-800:]}]
        counters["permutation_reruns"] = counters.get("permutation_reruns", 0) + 1
        for r1, r2 in zip(rows, rows2):
            for k in ("all_switches", "all_switchflips", "blockwise_hamming", "blockwise_diff_genotypes", "largestblock_switches",
                      "largestblock_hamming", "intersection_blocks", "covered_variants"):
                a, b = r1[k], r2[k]
                if P > 2 and k == "all_switchflips":
                    a = sum(_f(x) for x in a.split("/"))
                    b = sum(_f(x) for x in b.split("/"))
                same = (abs(a - b) < 1e-9) if isinstance(a, float) else (a == b)
                if not same:
                    viol.append({"mech": "depends-on-haplotype-order", "msg": "%s %s: %s = %s, after permuting haplotypes within phase sets %s" % (r1["chromosome"], r1["dataset_name1"], k, r1[k], r2[k])})
                    break
    return nontrivial, viol


def run_case(idx, rng, tier, lane):
    counters = {}
    keys = set()
    viol = []
    sample = None
    if lane.startswith("poly"):
        for j in range(60 if lane == "poly" else 30):
            v, nt, key = run_poly_direct(rng, counters)
            viol += v
            if nt:
                keys.add(hashlib.sha1(repr(key).encode()).hexdigest()[:16])
            sample = {"ploidy": key[0], "phasing0": key[1], "phasing1": key[2]}
        seen = set()
        uniq = [x for x in viol if not (x["mech"] in seen or seen.add(x["mech"]))]
        return {"nontrivial": bool(keys), "key": sorted(keys), "violations": uniq, "counters": counters, "sample": sample, "case": None}
    for j in range(6 if lane == "plain" else 4):
        case = gen_case(rng)
        tmp = tempfile.mkdtemp(prefix="c11-", dir=os.environ.get("WV_SCRATCH"))
        try:
            nt, v = check_case(case, tmp, counters, rng)
        finally:
            shutil.rmtree(tmp, ignore_errors=True)
        for x in v:
            x["data"] = case
        viol += v
        counters["ploidy_%d" % case["ploidy"]] = counters.get("ploidy_%d" % case["ploidy"], 0) + 1
        if nt:
            keys.add(hashlib.sha1(json.dumps(case, sort_keys=True).encode()).hexdigest()[:16])
        sample = {"ploidy": case["ploidy"], "file0_head": case["files"][0][:6], "file1_head": case["files"][1][:6]}
    seen = set()
    uniq = [x for x in viol if not (x["mech"] in seen or seen.add(x["mech"]))]
    return {"nontrivial": bool(keys), "key": sorted(keys), "violations": uniq, "counters": counters, "sample": sample, "case": None}
