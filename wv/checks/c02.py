"""C02 — error-free reads reproduce the true haplotypes (whatshap phase, default exact algorithm)."""
import hashlib
import json
import os
import shutil
import tempfile

from wv import pipeline
from wv.gen import genome

ID = "C02"
LEVEL = "exploration"
RULE = (
    "G-genome: 1-2 contigs with homopolymers/tandem repeats, 4-25 well separated variants (SNV / insertion / deletion / MNP, "
    "left-normalised), 1-3 samples with true diploid haplotypes, reads = exact haplotype copies aligned with indels at the "
    "normalised position (single and paired), depth 2x-60x, --internal-downsampling 2-15, tag PS/HP, --only-snvs, --sample subsets, "
    "--ignore-read-groups, one BAM or one per sample, with reference (all types) or --no-reference (SNVs + unshiftable indels). "
    "Stratum A 'clean ends': no read begins/ends within 25 bp of a multi-base variant; stratum B 'free ends': ends anywhere a valid "
    "CIGAR allows. Oracle: generator truth vs. own text-level decoders of PS/HP output, up to one flip per phase set. Side monitors: "
    "solver cost must be 0 (attribution), captured solver instances re-costed. Non-trivial: a run with >=1 phase set of >=2 variants; "
    "distinct by hash of (truth, reads, options)."
)
REQUIRED_COUNTERS = ["runs_ok", "phase_sets_ge2", "phased_variants_judged", "hook_PedigreeDPTable"]
ASSUMPTIONS = [
    "variants are well separated (>= 30 bp between extended footprints), the statement's own restriction",
    "without a reference only SNVs and unshiftable indels are generated (the statement's restriction)",
]
WATCHDOG = {"quick": 300, "thorough": 900}


def lanes(tier):
    if tier == "quick":
        return [("plain", "plain", 320)]
    return [("plain", "plain", 6000), ("san", "san", 300)]


def gen_params(rng, stratum):
    use_ref = rng.random() < 0.75
    if use_ref:
        kinds = rng.choice([["snv"], ["snv", "ins", "del", "mnp"], ["snv", "snv", "ins", "del", "mnp"], ["ins", "del"], ["mnp", "snv"]])
    else:
        kinds = rng.choice([["snv"], ["snv", "ins", "del"]])
    nsamp = rng.choice([1, 1, 2, 3])
    samples = ["sample%s" % c for c in "ABC"[:nsamp]]
    rng.shuffle(samples)
    p = {
        "n_chrom": rng.choice([1, 1, 2]),
        "chrom_len": rng.choice([1500, 3000, 5000]),
        "n_var": rng.randint(4, 25),
        "pos1_prob": 0.15,
        "kinds": kinds,
        "samples": samples,
        "depth": rng.choice([2, 4, 8, 15, 30, 60]),
        "read_len": rng.choice([(100, 250), (150, 600), (400, 1500)]),
        "paired": rng.choice([0.0, 0.0, 0.5, 1.0]),
        "end_policy": "clean" if stratum == "A" else "free",
        "allow_shiftable": use_ref,
        "per_sample_bam": rng.random() < 0.3,
        "rg_id_reuse": rng.random() < 0.5,  # (with per-sample files) every file calls its read group "1"
        "split_bams": rng.choice([0, 0, 2, 3]),
        "vcf_compress": rng.random() < 0.2,
        "qual_mode": rng.choice(["const", "random"]),
        "het_prob": rng.choice([0.6, 0.8, 1.0]),
    }
    if stratum == "B":
        # thin coverage: a single read that ends at / inside a variant is then the only evidence linking it
        p["depth"] = rng.choice([1, 1, 2, 4, 8, 15, 30])
        p["edge_frac"] = rng.choice([0.0, 0.3, 0.6])
        p["edge_ins"] = rng.choice([0.0, 0.5, 1.0]) if use_ref else 0.0
        # soft / hard clips (up to 30 bases), =/X instead of M. With a reference only: the statement claims indels and MNPs
        # "with a reference"; CIGAR-based detection of partially covered variants next to clips is C06's (narrower) business
        p["decorate"] = rng.choice([0.0, 0.5]) if use_ref else 0.0
        p["ins_end"] = rng.choice([0.0, 0.5, 1.0]) if use_ref else 0.0  # reads ending with the anchor of an insertion or inside the inserted bases
        # reads that end inside the homopolymer / tandem repeat behind a (shiftable) indel they carry are reported by a mapper
        # without the gap: their bases equal the reference laid down gap-free
        p["aligner_like_ends"] = rng.choice([0.0, 1.0]) if use_ref else 0.0
    opts = {
        "reference": "FASTA" if use_ref else False,
        "tag": rng.choice(["PS", "HP"]),
        "max_coverage": rng.choice([2, 3, 5, 8, 15]),
        "only_snvs": rng.random() < 0.15,
    }
    if nsamp > 1 and rng.random() < 0.3:
        opts["samples"] = rng.sample(samples, rng.randint(1, nsamp - 1))
    if nsamp == 1 and rng.random() < 0.2:
        opts["ignore_read_groups"] = True
    if rng.random() < 0.1:
        opts["mapping_quality"] = 0
    return p, opts


def misdetected(sim, trace):
    """Diagnostics: solver reads whose allele at a variant differs from the haplotype they were copied from."""
    out = []
    byname = {}
    for r in sim.reads:
        byname.setdefault(r["name"], []).append(r)
    for inst in trace["instances"]:
        c = inst["chromosome"]
        idx = {v.pos: i for i, v in enumerate(sim.variants[c])}
        for r in inst.get("reads", []):
            src = byname.get(r["name"])
            if not src:
                continue
            h, s = src[0]["hap"], src[0]["sample"]
            for p, a, q in r["vars"]:
                i = idx.get(p)
                if i is None:
                    continue
                t = sim.haps[c][s][h][i]
                if a != t:
                    v = sim.variants[c][i]
                    parts = [(x["start"], x["start"] + sum(l for op, l in x["cigar"] if op in (0, 2)), x["cigar"]) for x in src if x["chrom"] == c]
                    out.append({"read": r["name"], "variant": v.as_list(), "detected": a, "truth": t, "quality": q, "alignments": parts})
    return out


def classify_wrong_phase(desc):
    """Mechanism key of a wrongly phased set: named only if EVERY mis-detected allele of the run is explained by
    one of the two known allele-detection mechanisms; otherwise the generic key (never listed as known)."""
    mis = desc.get("misdetected") or []
    if not mis:
        return "wrong-phase"
    classes = set()
    for m in mis:
        pos, ref, alt, kind, shift = m["variant"]
        cls = None
        for a, b, cig in m["alignments"]:
            if kind == "mnp" and (pos < a < pos + len(ref) or pos < b < pos + len(ref)):
                cls = "read-end-inside-mnp-called-ref"
            if kind == "ins" and desc["options"]["reference"] is False and a == pos + 1 and m["detected"] == 0:
                cls = "noref-insertion-anchor-before-read-start-called-ref"
        classes.add(cls)
    if None in classes or len(classes) != 1:
        return "wrong-phase"
    return "wrong-phase:" + classes.pop()


def run_one(rng, stratum, counters, keep=None):
    tmp = tempfile.mkdtemp(prefix="c02-", dir=os.environ.get("WV_SCRATCH"))
    try:
        p, opts = gen_params(rng, stratum)
        sim = genome.simulate(rng, tmp, p)
        ro = dict(opts)
        if ro["reference"] == "FASTA":
            ro["reference"] = sim.fasta
        out = os.path.join(tmp, "out.vcf")
        status, trace, msg = pipeline.run_phase(sim, out, **ro)
        desc = {"stratum": stratum, "params": {k: v for k, v in p.items()}, "options": opts, "n_reads": len(sim.reads),
                "variants": {c: [v.as_list() for v in sim.variants[c]] for c in sim.chroms}}
        if status == "cle" and "No reads could be retrieved" in msg:
            counters["skipped_empty_bam"] = counters.get("skipped_empty_bam", 0) + 1
            return [], False, desc
        if status != "ok":
            v = pipeline.crash_violation(msg) if status == "crash" else {"mech": "unexpected-error", "msg": msg}
            return [v], False, desc
        counters["runs_ok"] = counters.get("runs_ok", 0) + 1
        counters["stratum_" + stratum] = counters.get("stratum_" + stratum, 0) + 1
        text = open(out).read()
        targets = opts.get("samples") or p["samples"]
        before = counters.get("phase_sets_ge2", 0)
        viol = pipeline.judge_truth(sim, text, targets, counters)
        nt = counters.get("phase_sets_ge2", 0) > before
        # attribution: cost of the instance; error-free reads => cost 0
        for inst in trace["instances"]:
            if "cost" in inst:
                counters["solver_instances"] = counters.get("solver_instances", 0) + 1
                if inst["cost"] != 0:
                    counters["solver_cost_nonzero"] = counters.get("solver_cost_nonzero", 0) + 1
        viol += pipeline.judge_witness(trace, counters)
        if any(x["mech"] == "wrong-phase" for x in viol):
            desc["misdetected"] = misdetected(sim, trace)[:40]
        for x in viol:
            x.pop("set", None)
        if viol:
            desc["reads_on_first_violation"] = None
        return viol, nt, desc
    finally:
        shutil.rmtree(tmp, ignore_errors=True)


def run_case(idx, rng, tier, lane):
    from wv import launch

    counters = {}
    keys = set()
    viol = []
    sample = None
    h0 = launch.hits()
    for j in range(6):
        stratum = "A" if (idx + j) % 3 != 2 else "B"
        v, nt, desc = run_one(rng, stratum, counters)
        for x in v:
            x["data"] = desc
            if x["mech"] == "wrong-phase":
                x["mech"] = classify_wrong_phase(desc)
        viol += v
        if nt:
            keys.add(hashlib.sha1(json.dumps(desc, sort_keys=True, default=str).encode()).hexdigest()[:16])
        sample = {"stratum": stratum, "options": desc["options"], "kinds": desc["params"]["kinds"], "depth": desc["params"]["depth"],
                  "n_reads": desc["n_reads"], "variants_chr1": desc["variants"].get("chr1", [])[:5]}
    for k, n in launch.hits().items():
        counters["hook_" + k] = n - h0.get(k, 0)
    seen = set()
    uniq = []
    for x in viol:
        if x["mech"] not in seen:
            seen.add(x["mech"])
            uniq.append(x)
    return {"nontrivial": bool(keys), "key": sorted(keys), "violations": uniq, "counters": counters, "sample": sample, "case": None}
