"""Interposed monitors for `whatshap phase` (and genotype): module-level names that the CLI code looks up at call time
are replaced by recording wrappers. The trace is recorded at the boundary between pipeline stages, not inside them.
Every wrapper counts its hits; a zero count on a workload that must reach it makes a check inconclusive.

Usage (inside a worker process):
    from wv import launch
    launch.install()
    launch.begin()            # start a fresh trace
    ... call whatshap.cli.phase.run_whatshap(...)
    trace = launch.end()      # dict with 'instances' (one per (chromosome, family)) and writer events
"""
import functools

_T = {"cur": None, "installed": False, "hits": {}}


def _hit(name):
    _T["hits"][name] = _T["hits"].get(name, 0) + 1


def hits():
    return dict(_T["hits"])


def begin():
    _T["cur"] = {"instances": [], "vcf_writes": [], "recomb_calls": [], "gtchange_calls": [], "readlist_calls": [], "select_calls": []}
    return _T["cur"]


def end():
    t = _T["cur"]
    _T["cur"] = None
    return t


def _cur():
    return _T["cur"]


def _inst():
    t = _cur()
    if t is None or not t["instances"]:
        return None
    return t["instances"][-1]


def dump_readset(rs):
    out = []
    for r in rs:
        out.append(
            {
                "name": r.name,
                "sample_id": r.sample_id,
                "source_id": r.source_id,
                "vars": [(v.position, v.allele, v.quality) for v in r],
            }
        )
    return out


def install():
    if _T["installed"]:
        return
    import whatshap.cli.phase as ph

    # ---- find_phaseable_variants: start of one (chromosome, family) instance
    orig_fpv = ph.find_phaseable_variants

    @functools.wraps(orig_fpv)
    def find_phaseable_variants(family, include_homozygous, trios, variant_table, *a, **kw):
        _hit("find_phaseable_variants")
        res = orig_fpv(family, include_homozygous, trios, variant_table, *a, **kw)
        t = _cur()
        if t is not None:
            hom, table = res
            t["instances"].append(
                {
                    "chromosome": variant_table.chromosome,
                    "family": list(family),
                    "trios": [(tr.father, tr.mother, tr.child) for tr in trios],
                    "homozygous_positions": sorted(hom),
                    "retained_positions": [v.position for v in table.variants],
                    "selected": {},
                }
            )
        return res

    ph.find_phaseable_variants = find_phaseable_variants

    # ---- select_reads
    orig_sel = ph.select_reads

    @functools.wraps(orig_sel)
    def select_reads(readset, max_coverage, preferred_source_ids):
        _hit("select_reads")
        res = orig_sel(readset, max_coverage, preferred_source_ids)
        t = _cur()
        if t is not None:
            rec = {"k": max_coverage, "n_in": len(readset), "n_out": len(res), "preferred": sorted(preferred_source_ids or [])}
            t["select_calls"].append(rec)
            i = _inst()
            if i is not None:
                i.setdefault("select", []).append(rec)
        return res

    ph.select_reads = select_reads

    # ---- PedigreeDPTable
    Real = ph.PedigreeDPTable

    class TracedTable:
        def __init__(self, all_reads, recombination_costs, pedigree, distrust_genotypes, accessible_positions):
            _hit("PedigreeDPTable")
            self._t = Real(all_reads, recombination_costs, pedigree, distrust_genotypes, accessible_positions)
            i = _inst()
            self._i = i
            if i is not None:
                i["reads"] = dump_readset(all_reads)
                i["recomb"] = list(recombination_costs)
                i["distrust"] = bool(distrust_genotypes)
                i["positions"] = list(accessible_positions)
                fam = i["family"]
                gts = {}
                gls = {}
                for s in fam:
                    gts[s] = [list(pedigree.genotype(s, k).as_vector()) for k in range(len(accessible_positions))]
                    if distrust_genotypes:
                        row = []
                        for k in range(len(accessible_positions)):
                            gl = pedigree.genotype_likelihoods(s, k)
                            row.append([gl[g] for g in gl.genotypes()] if gl is not None else None)
                        gls[s] = row
                i["genotypes"] = gts
                i["gls"] = gls
                i["sample_ids"] = dict(_T.get("last_ids") or {})

        def get_super_reads(self):
            res = self._t.get_super_reads()
            if self._i is not None:
                sr, tv = res
                self._i["superreads"] = [[[(v.position, v.allele, v.quality) for v in r] for r in rs] for rs in sr]
                self._i["transmission"] = list(tv) if tv is not None else None
                # the real object's own answers, for witness re-costing
                self._i["cost"] = self._t.get_optimal_cost()
                self._i["partition"] = list(self._t.get_optimal_partitioning())
            return res

        def get_optimal_cost(self):
            c = self._t.get_optimal_cost()
            if self._i is not None:
                self._i["cost"] = c
            return c

        def get_optimal_partitioning(self):
            p = self._t.get_optimal_partitioning()
            if self._i is not None:
                self._i["partition"] = list(p)
            return p

    ph.PedigreeDPTable = TracedTable

    # ---- create_pedigree: remember sample name -> numeric id of the family
    orig_cp = ph.create_pedigree

    @functools.wraps(orig_cp)
    def create_pedigree(default_gq, distrust_genotypes, family, gl_regularizer, numeric_sample_ids, phasable_variant_table, trios):
        _hit("create_pedigree")
        _T["last_ids"] = {s: numeric_sample_ids[s] for s in family}
        return orig_cp(default_gq, distrust_genotypes, family, gl_regularizer, numeric_sample_ids, phasable_variant_table, trios)

    ph.create_pedigree = create_pedigree

    # ---- compute_overall_components
    orig_coc = ph.compute_overall_components

    @functools.wraps(orig_coc)
    def compute_overall_components(*a, **kw):
        _hit("compute_overall_components")
        res = orig_coc(*a, **kw)
        i = _inst()
        if i is not None:
            i["components"] = dict(res)
        return res

    ph.compute_overall_components = compute_overall_components

    # ---- report writers
    orig_wrl = ph.write_recombination_list

    @functools.wraps(orig_wrl)
    def write_recombination_list(path, chromosome, *a, **kw):
        _hit("write_recombination_list")
        n = orig_wrl(path, chromosome, *a, **kw)
        t = _cur()
        if t is not None:
            t["recomb_calls"].append({"chromosome": chromosome, "n": n, "family": (_inst() or {}).get("family")})
        return n

    ph.write_recombination_list = write_recombination_list

    orig_wcg = ph.write_changed_genotypes

    @functools.wraps(orig_wcg)
    def write_changed_genotypes(path, changed, *a, **kw):
        _hit("write_changed_genotypes")
        t = _cur()
        if t is not None:
            t["gtchange_calls"].append(
                [(c.sample, c.chromosome, c.variant.position, repr(c.old_gt), repr(c.new_gt)) for c in changed]
            )
        return orig_wcg(path, changed, *a, **kw)

    ph.write_changed_genotypes = write_changed_genotypes

    orig_rlw = ph.ReadList.write

    @functools.wraps(orig_rlw)
    def readlist_write(self, readset, bipartition, sample_components, numeric_sample_ids):
        _hit("ReadList.write")
        t = _cur()
        if t is not None:
            t["readlist_calls"].append({"names": [r.name for r in readset], "bipartition": list(bipartition), "family": (_inst() or {}).get("family"),
                                        "chromosome": (_inst() or {}).get("chromosome")})
        return orig_rlw(self, readset, bipartition, sample_components, numeric_sample_ids)

    ph.ReadList.write = readlist_write

    orig_vw = ph.PhasedVcfWriter.write

    @functools.wraps(orig_vw)
    def vcf_write(self, chromosome, sample_superreads, sample_components, *a, **kw):
        _hit("PhasedVcfWriter.write")
        t = _cur()
        if t is not None:
            rec = {"chromosome": chromosome, "samples": sorted(sample_superreads), "phases": {}, "components": {}}
            for s, srs in sample_superreads.items():
                rec["phases"][s] = {v0.position: (v0.allele, v1.allele) for v0, v1 in zip(*srs)} if len(srs) == 2 else {}
                rec["components"][s] = dict(sample_components.get(s, {}))
            t["vcf_writes"].append(rec)
        return orig_vw(self, chromosome, sample_superreads, sample_components, *a, **kw)

    ph.PhasedVcfWriter.write = vcf_write
    _T["installed"] = True
