"""O-mec: brute-force weighted (Ped)MEC.

Instance (plain dict, JSON-able):
  n_ind        number of individuals (pedigree order = index)
  triples      [[father, mother, child], ...] by individual index, in the order they are added
  positions    sorted list of column positions
  reads        list, *in the order the solver sees them* (sorted read set):
                 {"ind": individual index, "vars": [[pos, allele, weight], ...]}
  genotypes    genotypes[ind][col] = list of alleles (e.g. [0,1]); used when not distrust
  gls          gls[ind][col] = [c00, c01, c11] integer phred costs; used when distrust
  recomb       list of per-column recombination costs (recomb[c] charged between c-1 and c)
  distrust     bool

Objective: choose a side (0/1) for every read, a transmission value t_c in [0,4^T) for every column,
and per column an allele for every IBD class ("partition"); cost = sum of weights of read entries whose
allele differs from the allele of the class of (their individual, their side) under t_c, plus GL costs
(distrust) or restricted to assignments reproducing every genotype (trusted), plus
popcount(t_c xor t_{c-1}) * recomb[c].  No projection, Gray code, checkpointing or backtrace table here:
all 2^R global side vectors are enumerated and a Viterbi over t is run for each of them.
"""
import itertools

import numpy as np

INF = 1 << 40


def hap_to_class(n_ind, triples, t):
    """IBD class of (individual, haplotype) under transmission value t.
    Founders get classes (2k, 2k+1) in index order; a child's haplotype 0 copies the father's haplotype
    1-bit(2i) and its haplotype 1 the mother's haplotype 1-bit(2i+1), i = index of its triple."""
    child_of = {}
    for i, (f, m, c) in enumerate(triples):
        child_of[c] = i
    cls = [None] * n_ind
    p = 0
    for i in range(n_ind):
        if i not in child_of:
            cls[i] = (p, p + 1)
            p += 2

    def rec(i):
        if cls[i] is not None:
            return
        k = child_of[i]
        f, m, _ = triples[k]
        rec(f)
        rec(m)
        cls[i] = (cls[f][1 - ((t >> (2 * k)) & 1)], cls[m][1 - ((t >> (2 * k + 1)) & 1)])

    for i in range(n_ind):
        rec(i)
    return cls, p


def _base_costs(inst, c, cls, ncls):
    """Vector over allele assignments (bit k = allele of class k): genotype/GL cost or INF."""
    n_asg = 1 << ncls
    base = np.zeros(n_asg, dtype=np.int64)
    asg = np.arange(n_asg)
    for i in range(inst["n_ind"]):
        a0 = (asg >> cls[i][0]) & 1
        a1 = (asg >> cls[i][1]) & 1
        if inst["distrust"]:
            gl = inst["gls"][i][c]
            base += np.asarray(gl, dtype=np.int64)[a0 + a1]
        else:
            g = sorted(inst["genotypes"][i][c])
            if len(g) != 2 or any(x not in (0, 1) for x in g):
                base += INF
            else:
                base += np.where(a0 + a1 == g[0] + g[1], 0, INF)
    return np.minimum(base, INF)


def active_reads(inst, c):
    pos = inst["positions"][c]
    out = []
    for r, read in enumerate(inst["reads"]):
        if read["vars"][0][0] <= pos <= read["vars"][-1][0]:
            out.append(r)
    return out


def _entry(read, pos):
    for p, a, w in read["vars"]:
        if p == pos:
            return a, w
    return None


def column_tables(inst):
    """colcost[c] = array [nT, 2^a] : min column cost per transmission value and local side pattern."""
    nT = 4 ** len(inst["triples"])
    tables = []
    actives = []
    for c in range(len(inst["positions"])):
        A = active_reads(inst, c)
        actives.append(A)
        a = len(A)
        pat = np.arange(1 << a)
        tab = np.empty((nT, 1 << a), dtype=np.int64)
        for t in range(nT):
            cls, ncls = hap_to_class(inst["n_ind"], inst["triples"], t)
            base = _base_costs(inst, c, cls, ncls)
            asg = np.arange(1 << ncls)
            cost = np.broadcast_to(base[None, :], (1 << a, 1 << ncls)).copy()
            for k, r in enumerate(A):
                e = _entry(inst["reads"][r], inst["positions"][c])
                if e is None:
                    continue
                al, w = e
                ind = inst["reads"][r]["ind"]
                m0 = (((asg >> cls[ind][0]) & 1) != al) * w  # cost if read on side 0
                m1 = (((asg >> cls[ind][1]) & 1) != al) * w
                side = ((pat >> k) & 1)[:, None]
                cost += np.where(side == 0, m0[None, :], m1[None, :])
            tab[t] = np.minimum(cost.min(axis=1), INF)
        tables.append(tab)
    return tables, actives


def _popcount(x):
    return bin(x).count("1")


def solve(inst):
    """Returns (optimum or None if infeasible, tables, actives)."""
    n = len(inst["positions"])
    R = len(inst["reads"])
    nT = 4 ** len(inst["triples"])
    if n == 0:
        return 0, [], []
    tables, actives = column_tables(inst)
    B = np.arange(1 << R)
    pc = np.array([[_popcount(i ^ j) for i in range(nT)] for j in range(nT)], dtype=np.int64)  # [j, i]
    dp = None
    for c in range(n):
        local = np.zeros(1 << R, dtype=np.int64)
        for k, r in enumerate(actives[c]):
            local |= ((B >> r) & 1) << k
        cur = tables[c][:, local].T  # [B, nT]
        if dp is None:
            dp = cur.copy()
        else:
            trans = pc * int(inst["recomb"][c])
            best = (dp[:, :, None] + trans[None, :, :]).min(axis=1)
            dp = np.minimum(best + cur, INF)
        dp = np.minimum(dp, INF)
    opt = int(dp.min())
    return (None if opt >= INF else opt), tables, actives


def recost(inst, sides, tvec, tables=None, actives=None):
    """Cost of the given witness (sides per read in solver order, transmission value per column)."""
    if tables is None:
        tables, actives = column_tables(inst)
    total = 0
    for c in range(len(inst["positions"])):
        local = 0
        for k, r in enumerate(actives[c]):
            local |= (sides[r] & 1) << k
        total += int(tables[c][tvec[c], local])
        if c > 0:
            total += _popcount(tvec[c] ^ tvec[c - 1]) * int(inst["recomb"][c])
    return total


def allele_margins(inst, c, sides, t):
    """For the given sides and transmission value: m[ind][hap] = (best column cost with allele 0, with allele 1)
    over the admissible assignments; pure Python enumeration."""
    cls, ncls = hap_to_class(inst["n_ind"], inst["triples"], t)
    pos = inst["positions"][c]
    best = [[[INF, INF], [INF, INF]] for _ in range(inst["n_ind"])]
    entries = []
    for r, read in enumerate(inst["reads"]):
        e = _entry(read, pos)
        if e is not None:
            entries.append((read["ind"], sides[r], e[0], e[1]))
    for asg in range(1 << ncls):
        cost = 0
        ok = True
        for i in range(inst["n_ind"]):
            a0 = (asg >> cls[i][0]) & 1
            a1 = (asg >> cls[i][1]) & 1
            if inst["distrust"]:
                cost += inst["gls"][i][c][a0 + a1]
            else:
                g = sorted(inst["genotypes"][i][c])
                if len(g) != 2 or any(x not in (0, 1) for x in g) or a0 + a1 != g[0] + g[1]:
                    ok = False
                    break
        if not ok:
            continue
        for ind, side, al, w in entries:
            if ((asg >> cls[ind][side]) & 1) != al:
                cost += w
        for i in range(inst["n_ind"]):
            for h in (0, 1):
                a = (asg >> cls[i][h]) & 1
                if cost < best[i][h][a]:
                    best[i][h][a] = cost
    return best


def solve_naive(inst):
    """Second, dumber formulation for self-tests: explicit enumeration of side vectors x transmission
    sequences x per-column allele assignments, pure Python."""
    n = len(inst["positions"])
    R = len(inst["reads"])
    nT = 4 ** len(inst["triples"])
    best = INF
    for sides in itertools.product((0, 1), repeat=R):
        colc = []
        for c in range(n):
            row = []
            for t in range(nT):
                m = allele_margins(inst, c, sides, t)
                row.append(min(min(m[0][0]), INF))
            colc.append(row)
        for tv in itertools.product(range(nT), repeat=n):
            tot = 0
            for c in range(n):
                tot += colc[c][tv[c]]
                if c > 0:
                    tot += _popcount(tv[c] ^ tv[c - 1]) * inst["recomb"][c]
                if tot >= best:
                    break
            if tot < best:
                best = tot
    return None if best >= INF else best


def random_instance(rng, kind=None, max_reads=8, max_cols=6, small=False):
    """G-matrix generator. Reads are NOT sorted here; sort through the real ReadSet.sort()."""
    kind = kind or rng.choice(["single", "single", "unrelated2", "unrelated3", "trio", "trio", "quartet", "threegen"])
    if kind == "single":
        n_ind, triples = 1, []
    elif kind == "unrelated2":
        n_ind, triples = 2, []
    elif kind == "unrelated3":
        n_ind, triples = 3, []
    elif kind == "trio":
        n_ind, triples = 3, [[0, 1, 2]]
        if rng.random() < 0.3:
            # different index order: child first
            perm = rng.sample(range(3), 3)
            triples = [[perm[0], perm[1], perm[2]]]
    elif kind == "trio+1":
        n_ind, triples = 4, [[0, 1, 2]]
    elif kind == "quartet":
        n_ind, triples = 4, [[0, 1, 2], [0, 1, 3]]
        if rng.random() < 0.5:
            # the trios registered in another order than the children are numbered, and/or the members numbered in another order
            perm = rng.sample(range(4), 4) if rng.random() < 0.6 else [0, 1, 2, 3]
            triples = [[perm[f], perm[m], perm[c]] for f, m, c in triples]
            if rng.random() < 0.6:
                triples.reverse()
    else:  # three generations
        n_ind, triples = 5, [[0, 1, 2], [2, 3, 4]]
        if rng.random() < 0.5:
            triples.reverse()  # registered bottom-up: the grandchild's trio before the trio in which its parent is the child
    n = rng.randint(1, max_cols)
    step = rng.choice([1, 10, 7])
    positions = sorted(rng.sample(range(1, 1 + n * step * 2), n))
    distrust = rng.random() < 0.4
    R = rng.randint(0 if rng.random() < 0.05 else 1, max_reads)
    wmode = rng.choice(["one", "small", "small", "mixed", "large", "huge"])
    reads = []
    cover_cols = positions if rng.random() < 0.7 or n < 3 else sorted(rng.sample(positions, rng.randint(2, n)))
    # hidden truth to make instances non-random (so that optimum is often small but > 0)
    truth = [[[rng.randint(0, 1) for _ in range(n)] for _ in range(2)] for _ in range(n_ind)]
    for r in range(R):
        if len(cover_cols) < 2:
            break
        i0 = rng.randrange(0, len(cover_cols) - 1)
        i1 = rng.randrange(i0 + 1, len(cover_cols))
        if rng.random() < 0.3:
            i1 = min(i1, i0 + 2)
        span = cover_cols[i0 : i1 + 1]
        inner = span[1:-1]
        keep = [p for p in inner if rng.random() < 0.75]
        cov = [span[0]] + keep + [span[-1]]
        ind = rng.randrange(n_ind)
        h = rng.randint(0, 1)
        vs = []
        for p in cov:
            a = truth[ind][h][positions.index(p)]
            if rng.random() < 0.2:
                a = 1 - a
            if wmode == "one":
                w = 1
            elif wmode == "small":
                w = rng.randint(0, 3)
            elif wmode == "mixed":
                w = rng.choice([0, 1, 2, 5, 10, 30])
            elif wmode == "huge":
                w = rng.choice([65535, 65536, 70000, 100000, 131072, 300000]) + rng.randint(0, 9)  # beyond 16 bits, sums far below 2^31
            else:
                w = rng.randint(10, 1000)
            vs.append([p, a, w])
        reads.append({"ind": ind, "vars": vs})
    explicit = (len(cover_cols) < n) or rng.random() < 0.3
    if not explicit:
        used = sorted({p for rd in reads for p, _, _ in rd["vars"]})
        positions = used
        n = len(positions)
    # genotypes
    gmode = rng.choice(["allhet", "consistent", "consistent", "random"])
    genotypes = [[None] * n for _ in range(n_ind)]
    for c in range(n):
        if gmode == "random":
            for i in range(n_ind):
                genotypes[i][c] = rng.choice([[0, 0], [0, 1], [0, 1], [1, 1]])
        else:
            # draw founders, transmit
            child_of = {tr[2]: tr for tr in triples}
            hap = {}

            def geno(i):
                if i in hap:
                    return hap[i]
                if i in child_of:
                    f, m, _ = child_of[i]
                    hap[i] = (rng.choice(geno(f)), rng.choice(geno(m)))
                else:
                    hap[i] = (0, 1) if (gmode == "allhet" or rng.random() < 0.6) else rng.choice([(0, 0), (1, 1), (1, 0)])
                return hap[i]

            for i in range(n_ind):
                genotypes[i][c] = sorted(geno(i))
    if rng.random() < 0.03 and n:
        genotypes[rng.randrange(n_ind)][rng.randrange(n)] = rng.choice([[], [0, 2], [0, 0, 1]])
    gls = None
    if distrust:
        gls = []
        for i in range(n_ind):
            row = []
            for c in range(n):
                mode = rng.random()
                if mode < 0.3:
                    g = [rng.randint(0, 40) for _ in range(3)]
                elif mode < 0.6:
                    g = [rng.choice([0, 0, 1, 2, 5]) for _ in range(3)]
                else:
                    g = [30, 30, 30]
                    gi = genotypes[i][c]
                    g[sum(gi) if len(gi) == 2 and max(gi) <= 1 else 1] = 0
                row.append(g)
            gls.append(row)
    rmode = rng.choice(["zero", "uniform", "uniform", "mixed", "large"])
    recomb = []
    for c in range(n):
        if rmode == "zero":
            recomb.append(0)
        elif rmode == "uniform":
            recomb.append(3)
        elif rmode == "mixed":
            recomb.append(rng.choice([0, 0, 1, 2, 7, 50]))
        else:
            recomb.append(rng.randint(20, 200))
    return {
        "kind": kind,
        "n_ind": n_ind,
        "triples": triples,
        "positions": positions,
        "reads": reads,
        "genotypes": genotypes,
        "gls": gls,
        "recomb": recomb,
        "distrust": distrust,
        "explicit_positions": explicit,
    }


def selftest():
    import random

    n = 0
    # hand-computed: two reads 01 / 10 on an all-het individual: cost 0
    inst = {
        "n_ind": 1, "triples": [], "positions": [10, 20],
        "reads": [{"ind": 0, "vars": [[10, 0, 1], [20, 1, 1]]}, {"ind": 0, "vars": [[10, 1, 1], [20, 0, 1]]}],
        "genotypes": [[[0, 1], [0, 1]]], "gls": None, "recomb": [0, 0], "distrust": False,
    }
    assert solve(inst)[0] == 0
    # three reads 00, 00, 11 + one 01 conflicting with weight 2 -> min is to flip one entry of the last read: 2
    inst["reads"] = [
        {"ind": 0, "vars": [[10, 0, 5], [20, 0, 5]]},
        {"ind": 0, "vars": [[10, 1, 5], [20, 1, 5]]},
        {"ind": 0, "vars": [[10, 0, 2], [20, 1, 3]]},
    ]
    assert solve(inst)[0] == 2
    # homozygous genotype forces both haplotypes to 0 at column 2: reads 00 and 11 -> cost = weight of the '1' = 5
    inst["genotypes"] = [[[0, 1], [0, 0]]]
    inst["reads"] = inst["reads"][:2]
    assert solve(inst)[0] == 5
    n += 3
    # class map: trio, t=0 -> child copies father's hap 1 and mother's hap 1
    cls, k = hap_to_class(3, [[0, 1, 2]], 0)
    assert k == 4 and cls == [(0, 1), (2, 3), (1, 3)]
    cls, k = hap_to_class(3, [[0, 1, 2]], 3)
    assert cls == [(0, 1), (2, 3), (0, 2)]
    cls, k = hap_to_class(3, [[0, 1, 2]], 1)
    assert cls == [(0, 1), (2, 3), (0, 3)]
    n += 3
    # numpy solver == naive enumeration (incl. all 4^n transmission sequences) on tiny random instances
    rng = random.Random(12345)
    done = 0
    while done < 60:
        kind = rng.choice(["single", "unrelated2", "trio", "trio", "quartet"])
        inst = random_instance(rng, kind, max_reads=4, max_cols=3 if kind != "quartet" else 2)
        # reads need to be in solver order for both (any fixed order is fine for the comparison)
        a = solve(inst)[0]
        b = solve_naive(inst)
        assert a == b, (inst, a, b)
        done += 1
    return n + done
