"""O-fb: posterior genotype probabilities of the documented genotyping HMM by plain enumeration.

Model (definitions shared with the code; the inference below is independent of projection columns, scaling and
checkpointing): hidden state per column = (side of every active read, transmission value t, allele a_k per IBD class k).
  emission(c)   = prod over non-blank entries of column c: (1-eps) if the entry's allele equals the allele of the class of
                  (its individual, its side) under t, else eps; eps = 10^(-q/10), eps(0) = 0.9999
  P(t_c|t_{c-1}) proportional to rho^d (1-rho)^(2T-d), d = popcount(t_c xor t_{c-1}), rho = 10^(-recomb[c]/10), rows normalised;
                  all t equally weighted in the first column
  P(a|t) at c   proportional to prod_i prior_i,c(genotype_i(a,t)) / #{a' with the same genotype vector}, normalised over a
  read sides    constant along a read, otherwise free (uniform)
Posterior of genotype g of individual i at column c = mass of complete paths with that genotype / total mass.
All 2^R global side vectors are enumerated; for each a dense forward-backward over t is run (float64).
"""
import itertools
import math

import numpy as np

from wv.oracle.mec import active_reads, hap_to_class


def eps(q):
    return 0.9999 if q == 0 else 10.0 ** (-q / 10.0)


def _popcount(x):
    return bin(x).count("1")


def posteriors(inst):
    """inst like the MEC instance plus inst['priors'][ind][col] = [p00, p01, p11]. Returns post[ind][col] = [3 floats]."""
    n = len(inst["positions"])
    R = len(inst["reads"])
    T = len(inst["triples"])
    nT = 4**T
    n_ind = inst["n_ind"]
    cls_t = [hap_to_class(n_ind, inst["triples"], t) for t in range(nT)]
    ncls = cls_t[0][1]
    nA = 1 << ncls
    # P(a|t) per column, genotype index per (t, a, ind)
    gidx = np.zeros((nT, nA, n_ind), dtype=np.int64)
    for t in range(nT):
        cls = cls_t[t][0]
        for a in range(nA):
            for i in range(n_ind):
                gidx[t, a, i] = ((a >> cls[i][0]) & 1) + ((a >> cls[i][1]) & 1)
    Pa = np.zeros((n, nT, nA))
    for c in range(n):
        for t in range(nT):
            counts = {}
            for a in range(nA):
                key = tuple(gidx[t, a])
                counts[key] = counts.get(key, 0) + 1
            for a in range(nA):
                p = 1.0
                for i in range(n_ind):
                    p *= inst["priors"][i][c][gidx[t, a, i]]
                Pa[c, t, a] = p / counts[tuple(gidx[t, a])]
            s = Pa[c, t].sum()
            Pa[c, t] /= s
    # transitions
    Tm = []
    for c in range(n):
        rho = 10.0 ** (-inst["recomb"][c] / 10.0)
        M = np.zeros((nT, nT))
        for j in range(nT):
            for i in range(nT):
                d = _popcount(i ^ j)
                M[j, i] = rho**d * (1 - rho) ** (2 * T - d)
            M[j] /= M[j].sum()
        Tm.append(M)
    actives = [active_reads(inst, c) for c in range(n)]
    entries = []
    for c in range(n):
        pos = inst["positions"][c]
        es = []
        for r in actives[c]:
            for p, al, q in inst["reads"][r]["vars"]:
                if p == pos:
                    es.append((r, inst["reads"][r]["ind"], al, eps(q)))
        entries.append(es)
    memo = {}

    def emis(c, sides):
        """E[t, a] for column c given the sides of the reads having an entry there."""
        key = (c, tuple(sides[r] for r, _, _, _ in entries[c]))
        if key in memo:
            return memo[key]
        E = np.ones((nT, nA))
        for t in range(nT):
            cls = cls_t[t][0]
            for a in range(nA):
                v = 1.0
                for r, ind, al, e in entries[c]:
                    allele = (a >> cls[ind][sides[r]]) & 1
                    v *= (1 - e) if allele == al else e
                E[t, a] = v
        memo[key] = E
        return E

    num = np.zeros((n_ind, n, 3))
    den = 0.0
    for sides in itertools.product((0, 1), repeat=R):
        W = [emis(c, sides) * Pa[c] for c in range(n)]  # [t, a]
        Et = [w.sum(axis=1) for w in W]  # [t]
        # forward prefix: pre[c][t] = sum_j alpha_{c-1}(j) T_c(j,t), alpha_c = pre_c * Et_c
        pre = [np.ones(nT)]
        alpha = pre[0] * Et[0]
        for c in range(1, n):
            p = alpha @ Tm[c]
            pre.append(p)
            alpha = p * Et[c]
        total = alpha.sum()
        den += total
        beta = [None] * n
        beta[n - 1] = np.ones(nT)
        for c in range(n - 2, -1, -1):
            beta[c] = Tm[c + 1] @ (Et[c + 1] * beta[c + 1])
        for c in range(n):
            w = (pre[c] * beta[c])[:, None] * W[c]  # [t, a]
            for i in range(n_ind):
                for g in range(3):
                    num[i, c, g] += w[gidx[:, :, i] == g].sum()
    return (num / den).tolist()


def posteriors_single_factorised(inst):
    """Same model, for ONE individual without relatives (T = 0, two IBD classes): given the allele pairs (a_c) of all columns the
    reads are independent, each being on side 0 or 1 with probability 1/2 along its whole length, so
        P(g at c | reads)  ~  sum over (a_1..a_n) [genotype(a_c) = g] prod_c P(a_c) prod_r 1/2 (prod_{c in r} em(r,c,a_c,0) + prod_{c in r} em(r,c,a_c,1)).
    Cost 4^n * (entries), independent of the number of reads: used where 2^R side vectors are out of reach (R = 13..18)."""
    assert inst["n_ind"] == 1 and not inst["triples"]
    n = len(inst["positions"])
    col = {p: c for c, p in enumerate(inst["positions"])}
    pa = []
    for c in range(n):
        pr = inst["priors"][0][c]
        raw = [pr[0], pr[1] / 2.0, pr[1] / 2.0, pr[2]]  # a = (hap0 allele) + 2 * (hap1 allele); the two het assignments share the genotype
        z = sum(raw)
        pa.append([x / z for x in raw])
    reads = [[(col[p], al, eps(q)) for p, al, q in rd["vars"] if p in col] for rd in inst["reads"]]
    num = [[0.0] * 3 for _ in range(n)]
    den = 0.0
    for a in itertools.product(range(4), repeat=n):
        w = 1.0
        for c in range(n):
            w *= pa[c][a[c]]
        for rd in reads:
            s0 = s1 = 1.0
            for c, al, e in rd:
                h0, h1 = a[c] & 1, (a[c] >> 1) & 1
                s0 *= (1 - e) if h0 == al else e
                s1 *= (1 - e) if h1 == al else e
            w *= 0.5 * (s0 + s1)
        den += w
        for c in range(n):
            num[c][(a[c] & 1) + ((a[c] >> 1) & 1)] += w
    return [[[x / den for x in num[c]] for c in range(n)]]


def posteriors_naive(inst):
    """Second, dumber formulation for the self-test: explicit enumeration of complete paths (sides x t-sequence x
    a-sequence), pure Python; only for tiny instances."""
    n = len(inst["positions"])
    R = len(inst["reads"])
    T = len(inst["triples"])
    nT = 4**T
    n_ind = inst["n_ind"]
    cls_t = [hap_to_class(n_ind, inst["triples"], t) for t in range(nT)]
    nA = 1 << cls_t[0][1]

    def geno(t, a, i):
        cls = cls_t[t][0]
        return ((a >> cls[i][0]) & 1) + ((a >> cls[i][1]) & 1)

    def pa(c, t, a):
        def raw(a2):
            p = 1.0
            for i in range(n_ind):
                p *= inst["priors"][i][c][geno(t, a2, i)]
            same = sum(1 for a3 in range(nA) if all(geno(t, a3, i) == geno(t, a2, i) for i in range(n_ind)))
            return p / same

        return raw(a) / sum(raw(x) for x in range(nA))

    def tr(c, j, i):
        rho = 10.0 ** (-inst["recomb"][c] / 10.0)

        def w(x):
            d = _popcount(x ^ j)
            return rho**d * (1 - rho) ** (2 * T - d)

        return w(i) / sum(w(x) for x in range(nT))

    num = [[[0.0] * 3 for _ in range(n)] for _ in range(n_ind)]
    den = 0.0
    for sides in itertools.product((0, 1), repeat=R):
        for ts in itertools.product(range(nT), repeat=n):
            for as_ in itertools.product(range(nA), repeat=n):
                p = 1.0
                for c in range(n):
                    if c > 0:
                        p *= tr(c, ts[c - 1], ts[c])
                    p *= pa(c, ts[c], as_[c])
                    pos = inst["positions"][c]
                    cls = cls_t[ts[c]][0]
                    for r, rd in enumerate(inst["reads"]):
                        for q_pos, al, q in rd["vars"]:
                            if q_pos == pos:
                                allele = (as_[c] >> cls[rd["ind"]][sides[r]]) & 1
                                p *= (1 - eps(q)) if allele == al else eps(q)
                den += p
                for c in range(n):
                    for i in range(n_ind):
                        num[i][c][geno(ts[c], as_[c], i)] += p
    return [[[x / den for x in num[i][c]] for c in range(n)] for i in range(n_ind)]


def selftest():
    import random

    rng = random.Random(99)
    n_ok = 0
    # hand case: single individual, one column, one read entry allele 1 quality 10, uniform prior
    inst = {"n_ind": 1, "triples": [], "positions": [10, 20], "reads": [{"ind": 0, "vars": [[10, 1, 10], [20, 0, 10]]}],
            "priors": [[[1 / 3, 1 / 3, 1 / 3], [1 / 3, 1 / 3, 1 / 3]]], "recomb": [0, 0]}
    post = posteriors(inst)
    # column 0: P(g) ~ prior(g)/mult * sum over assignments/sides: g=0: both haps 0 -> eps; g=2: 1-eps; g=1: half each
    e = 0.1
    w = [e, 0.5 * (e + (1 - e)), 1 - e]
    s = sum(w)
    assert all(abs(post[0][0][g] - w[g] / s) < 1e-12 for g in range(3)), post[0][0]
    n_ok += 1
    for k in range(8):
        kind = "trio" if k == 2 else "single"
        n_ind, triples = (1, []) if kind == "single" else (3, [[0, 1, 2]])
        n = 2
        reads = []
        for r in range(rng.randint(1, 3 if kind == "single" else 1)):
            reads.append({"ind": rng.randrange(n_ind), "vars": [[10, rng.randint(0, 1), rng.choice([0, 3, 10, 30])], [20, rng.randint(0, 1), rng.choice([1, 5, 20])]]})
        priors = [[[rng.random() + 0.01 for _ in range(3)] for _ in range(n)] for _ in range(n_ind)]
        priors = [[[x / sum(p) for x in p] for p in row] for row in priors]
        inst = {"n_ind": n_ind, "triples": triples, "positions": [10, 20], "reads": reads, "priors": priors, "recomb": [0, rng.choice([0, 3, 20])]}
        a = posteriors(inst)
        b = posteriors_naive(inst)
        for i in range(n_ind):
            for c in range(n):
                for g in range(3):
                    assert abs(a[i][c][g] - b[i][c][g]) < 1e-10, (inst, a, b)
        n_ok += 1
    # the factorised single-individual formulation against the side-vector enumeration
    for k in range(6):
        n = rng.randint(1, 3)
        positions = [10 * (c + 1) for c in range(n)]
        reads = []
        for r in range(rng.randint(1, 6)):
            cols = sorted(rng.sample(positions, rng.randint(1, n)))
            reads.append({"ind": 0, "vars": [[p, rng.randint(0, 1), rng.choice([0, 3, 10, 30, 300])] for p in cols]})
        priors = [[[rng.random() + 0.01 for _ in range(3)] for _ in range(n)]]
        priors = [[[x / sum(p) for x in p] for p in row] for row in priors]
        inst = {"n_ind": 1, "triples": [], "positions": positions, "reads": reads, "priors": priors, "recomb": [rng.choice([0, 5, 40]) for _ in range(n)]}
        a = posteriors(inst)
        b = posteriors_single_factorised(inst)
        for c in range(n):
            for g in range(3):
                assert abs(a[0][c][g] - b[0][c][g]) < 1e-10, (inst, a, b)
        n_ok += 1
    return n_ok
