"""Self-tests of the reference models on hand-computed cases (run by setup_cmd)."""
import importlib

MODULES = ["lev", "mec", "fb"]


def run():
    n = 0
    for name in MODULES:
        m = importlib.import_module("wv.oracle." + name)
        n += m.selftest()
    return n
