"""Text-level VCF parsing and decoders of phase information (O-decode). Nothing from whatshap or pysam."""


def parse(text):
    """Returns (meta_lines, samples, records). records: dict with raw string fields;
    'calls' = list (per sample) of dict FORMAT-key -> raw string (missing trailing fields -> absent)."""
    meta = []
    samples = []
    records = []
    for line in text.splitlines():
        if not line:
            continue
        if line.startswith("##"):
            meta.append(line)
            continue
        if line.startswith("#"):
            cols = line.split("\t")
            samples = cols[9:]
            continue
        f = line.split("\t")
        rec = {
            "chrom": f[0],
            "pos": int(f[1]),
            "id": f[2],
            "ref": f[3],
            "alts": [] if f[4] == "." else f[4].split(","),
            "qual": f[5],
            "filter": f[6],
            "info": f[7],
            "fmt": [],
            "calls": [],
        }
        if len(f) > 8:
            fmt = [] if f[8] == "." else f[8].split(":")
            rec["fmt"] = fmt
            for s in f[9:]:
                vals = s.split(":")
                rec["calls"].append({k: v for k, v in zip(fmt, vals)})
        records.append(rec)
    return meta, samples, records


def header_ids(meta, kind):
    """IDs defined by ##<kind>=<ID=...> lines (kind in contig, INFO, FILTER, FORMAT)."""
    out = []
    pre = "##%s=<" % kind
    for l in meta:
        if l.startswith(pre):
            body = l[len(pre) :]
            for part in body.split(","):
                if part.startswith("ID="):
                    out.append(part[3:].rstrip(">"))
                    break
    return out


def split_gt(gt):
    """'0|1' -> (['0','1'], phased?) ; phased is True iff every separator is '|' and there is at least one."""
    if gt is None:
        return None, False
    if "|" in gt or "/" in gt:
        seps = [c for c in gt if c in "|/"]
        alleles = gt.replace("|", "/").split("/")
        return alleles, all(s == "|" for s in seps)
    return [gt], False


def gt_multiset(gt):
    a, _ = split_gt(gt)
    return sorted(a) if a is not None else None


def is_het(alleles):
    return alleles is not None and "." not in alleles and len(set(alleles)) > 1


def decode_ps(call):
    """PS decoder: a call is phased iff its GT uses '|' and is heterozygous; block id = PS (0 if absent/missing).
    Returns (block_id, tuple of allele strings in haplotype order) or None."""
    gt = call.get("GT")
    alleles, phased = split_gt(gt)
    if not phased or not is_het(alleles):
        return None
    ps = call.get("PS")
    block = 0 if ps in (None, ".") else ps
    try:
        block = int(block)
    except ValueError:
        pass
    return block, tuple(alleles)


def decode_hp(call):
    """HP decoder: HP = 'b-i,b-j,...': the k-th GT allele lies on haplotype number (k-th suffix).
    Returns (block_id, alleles in haplotype order) or None."""
    hp = call.get("HP")
    if hp is None or hp.strip("\x00") in (".", ""):
        # htslib/pysam write an unset String value of Number=. as an empty field or as NUL padding
        return None
    alleles, _ = split_gt(call.get("GT"))
    parts = [p.split("-") for p in hp.split(",")]
    block = int(parts[0][0])
    order = [int(p[1]) - 1 for p in parts]
    if alleles is None or len(order) != len(alleles) or sorted(order) != list(range(len(order))):
        return block, None
    hap = [None] * len(order)
    for k, o in enumerate(order):
        hap[o] = alleles[k]
    return block, tuple(hap)


def decode_call(call):
    """Either decoder; returns ('HP'|'PS', block, alleles) or None."""
    h = decode_hp(call)
    if h is not None:
        return ("HP",) + h
    p = decode_ps(call)
    if p is not None:
        return ("PS",) + p
    return None


def phase_sets(records, sample_index, decoder=decode_call, biallelic_first_only=False):
    """{(chrom, block): [(pos, alleles)]} for one sample."""
    out = {}
    for r in records:
        if not r["calls"]:
            continue
        d = decoder(r["calls"][sample_index])
        if d is None:
            continue
        if len(d) == 3:
            _, block, al = d
        else:
            block, al = d
        out.setdefault((r["chrom"], block), []).append((r["pos"], al))
    return out
