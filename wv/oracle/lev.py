"""O-lev: Wagner-Fischer Levenshtein distance; O-gtindex: combinatorial number system."""
from functools import lru_cache
from math import comb


def lev(s, t):
    m, n = len(s), len(t)
    prev = list(range(n + 1))
    for i in range(1, m + 1):
        cur = [i] + [0] * n
        si = s[i - 1]
        for j in range(1, n + 1):
            c = prev[j - 1] + (0 if si == t[j - 1] else 1)
            a = prev[j] + 1
            b = cur[j - 1] + 1
            cur[j] = c if (c <= a and c <= b) else (a if a <= b else b)
        prev = cur
    return prev[n]


def lev_rec(s, t):
    @lru_cache(None)
    def f(i, j):
        if i == 0:
            return j
        if j == 0:
            return i
        return min(f(i - 1, j) + 1, f(i, j - 1) + 1, f(i - 1, j - 1) + (s[i - 1] != t[j - 1]))

    return f(len(s), len(t))


def gt_index(alleles):
    """Canonical VCF genotype index of an allele multiset."""
    return sum(comb(a + k, k + 1) for k, a in enumerate(sorted(alleles)))


def n_genotypes(ploidy, n_alleles):
    return comb(ploidy + n_alleles - 1, ploidy)


def selftest():
    n = 0
    assert lev("kitten", "sitting") == 3
    assert lev("", "abc") == 3 and lev("abc", "") == 3 and lev("", "") == 0
    assert lev("flaw", "lawn") == 2
    import itertools

    strs = ["".join(p) for l in range(0, 5) for p in itertools.product("AC", repeat=l)]
    for s in strs:
        for t in strs:
            assert lev(s, t) == lev_rec(s, t), (s, t)
            n += 1
    # index table from the VCF spec / genotype.h comment
    assert [gt_index(g) for g in [(0, 0), (0, 1), (1, 1), (0, 2), (1, 2), (2, 2), (0, 3), (1, 3), (2, 3), (3, 3)]] == list(range(10))
    tetra = [(0, 0, 0, 0), (0, 0, 0, 1), (0, 0, 1, 1), (0, 1, 1, 1), (1, 1, 1, 1), (0, 0, 0, 2), (0, 0, 1, 2), (0, 1, 1, 2),
             (1, 1, 1, 2), (0, 0, 2, 2), (0, 1, 2, 2), (1, 1, 2, 2), (0, 2, 2, 2), (1, 2, 2, 2), (2, 2, 2, 2)]
    assert [gt_index(g) for g in tetra] == list(range(15))
    assert n_genotypes(2, 2) == 3 and n_genotypes(4, 3) == 15
    return n + 3
