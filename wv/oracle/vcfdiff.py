"""O-vcfdiff: record-level comparison of two VCF files parsed with pysam (htslib) only."""
import math

import pysam


def _norm(v):
    """missing == absent; tuples of all-None == absent."""
    if v is None:
        return None
    if isinstance(v, tuple):
        t = tuple(_norm1(x) for x in v)
        if all(x is None for x in t):
            return None
        return t
    return _norm1(v)


def _norm1(x):
    if isinstance(x, float):
        return round(x, 5) if math.isfinite(x) else str(x)
    if x == "." or (isinstance(x, str) and x.strip("\x00") == ""):
        return None
    return x


def load(path):
    """Returns dict(header=..., records=[...])."""
    vf = pysam.VariantFile(path)
    h = vf.header
    hdr = {
        "samples": list(h.samples),
        "contigs": list(h.contigs),
        "info": list(h.info),
        "formats": list(h.formats),
        "filters": list(h.filters),
        "phasing_lines": [str(r) for r in h.records if r.key == "phasing"],
    }
    recs = []
    for r in vf:
        d = {
            "chrom": r.chrom,
            "pos": r.pos,
            "id": r.id,
            "ref": r.ref,
            "alts": tuple(r.alts) if r.alts else (),
            "qual": _norm1(r.qual) if r.qual is not None else None,
            "filter": tuple(sorted(r.filter.keys())),
            "info": {k: _norm(v) for k, v in r.info.items()},
            "format": list(r.format.keys()),
            "samples": {},
        }
        for name, call in r.samples.items():
            c = {}
            for k in r.format.keys():
                if k == "GT":
                    continue
                try:
                    c[k] = _norm(call[k])
                except KeyError:
                    c[k] = None
            gt = None
            if "GT" in r.format.keys():
                gt = call["GT"]
            c["__GT"] = (tuple(gt) if gt is not None else None, bool(call.phased) if (gt is not None and len(gt) >= 2) else False)
            d["samples"][name] = c
        recs.append(d)
    vf.close()
    return {"header": hdr, "records": recs}


def compare(a, b, gt_policy, ignore_format=("HP", "PS", "PQ"), check_header=True, header_may_lose=("HP", "PS", "PQ")):
    """Returns list of difference strings. gt_policy(record_a, sample, gt_a, gt_b) -> None or str.
    gt_* = (alleles tuple or None, phased flag)."""
    out = []
    ha, hb = a["header"], b["header"]
    if ha["samples"] != hb["samples"]:
        out.append("samples differ: %r vs %r" % (ha["samples"], hb["samples"]))
    if check_header:
        for kind in ("contigs", "info", "filters"):
            for x in ha[kind]:
                if x not in hb[kind]:
                    out.append("header %s %r lost" % (kind, x))
        for x in ha["formats"]:
            if x not in hb["formats"] and x not in header_may_lose:
                out.append("header FORMAT %r lost" % x)
    ra, rb = a["records"], b["records"]
    if len(ra) != len(rb):
        out.append("record count %d -> %d" % (len(ra), len(rb)))
    for i, (x, y) in enumerate(zip(ra, rb)):
        loc = "%s:%d(#%d)" % (x["chrom"], x["pos"], i)
        for k in ("chrom", "pos", "id", "ref", "alts", "qual", "filter"):
            if x[k] != y[k]:
                out.append("%s %s %r -> %r" % (loc, k, x[k], y[k]))
        ia = {k: v for k, v in x["info"].items()}
        ib = {k: v for k, v in y["info"].items()}
        if ia != ib:
            out.append("%s INFO %r -> %r" % (loc, ia, ib))
        for s in ha["samples"]:
            ca, cb = x["samples"].get(s, {}), y["samples"].get(s, {})
            keys = (set(ca) | set(cb)) - set(ignore_format) - {"__GT"}
            for k in sorted(keys):
                if ca.get(k) != cb.get(k):
                    out.append("%s sample %s FORMAT %s %r -> %r" % (loc, s, k, ca.get(k), cb.get(k)))
            e = gt_policy(x, s, ca.get("__GT", (None, False)), cb.get("__GT", (None, False)))
            if e:
                out.append("%s sample %s GT: %s" % (loc, s, e))
        if len(out) > 40:
            out.append("... (truncated)")
            break
    return out


def multiset(gt):
    if gt is None:
        return None
    return sorted(gt, key=lambda v: (-1 if v is None else v))


def htslib_roundtrips(path, out):
    """Precondition guard: True iff a plain pysam reader->writer copy of the file works (no whatshap involved)."""
    try:
        r = pysam.VariantFile(path)
        w = pysam.VariantFile(out, "w", header=r.header)
        for rec in r:
            if rec.contig not in w.header.contigs:
                # contigs need not be declared in a VCF; htslib learns them while parsing, the writer's header copy does not
                w.header.contigs.add(rec.contig)
            w.write(rec)
        w.close()
        r.close()
        return True
    except (OSError, ValueError):
        return False
