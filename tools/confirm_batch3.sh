#!/bin/bash
# confirm_batch3.sh Cnn ... : confirm the round-2 seeds /tmp/seed2-Cnn/{1,2} in /tmp/wt2-Cnn, store as Cnn-3 / Cnn-4
for c in "$@"; do
  ( wt=/tmp/wt2-$c; git -C $wt checkout -q -- . 2>/dev/null; git -C $wt reset -q --hard 2>/dev/null; rm -f $wt/_demo.py $wt/.built_at
    for k in 1 2; do echo "== $c-$((k+2))"; /verif/tools/confirm_seed.sh /tmp/seed2-$c/$k $wt $c-$((k+2)) $c; done ) > /tmp/confirm2-$c.log 2>&1 &
done
wait
