#!/bin/bash
# tools/confirm_seed.sh <agent-seed-dir> <worktree> <seed-id> <property> : confirm a seeded change independently
# (demo passes without / fails with the change; test suite still passes with it), then store it in /verif/seeded/<seed-id>/.
sd=$1; wt=$2; sid=$3; prop=$4
head=$(git -C /repo rev-parse HEAD)
cd $wt || exit 2
git checkout -q -- . ; git checkout -q --detach $head || exit 2
native=$(grep -E '^\+\+\+ b/.*\.(pyx|pxd|cpp|h)$' $sd/patch.diff | wc -l)
need_build=0
# rebuild if the worktree's .so are older than HEAD's native sources
if [ ! -f $wt/.built_at ] || [ "$(cat $wt/.built_at)" != "$(cd /verif && /venv/bin/python -c 'from wv import build; print(build.native_key())')" ]; then need_build=1; fi
if [ $need_build = 1 ]; then /venv/bin/python setup.py build_ext --inplace -q >/dev/null 2>&1; (cd /verif && /venv/bin/python -c 'from wv import build; print(build.native_key())') > $wt/.built_at; fi
cp $sd/demo.py $wt/_demo.py
/venv/bin/python _demo.py >/tmp/demo_clean.$sid.out 2>&1; rc_clean=$?
if ! git apply $sd/patch.diff 2>/tmp/apply.$sid.err; then git apply --3way $sd/patch.diff 2>>/tmp/apply.$sid.err || { echo "PATCH DOES NOT APPLY to current HEAD"; cat /tmp/apply.$sid.err; rm -f _demo.py; git checkout -q -- .; exit 3; }; git reset -q; fi
if [ $native -gt 0 ]; then /venv/bin/python setup.py build_ext --inplace -q >/dev/null 2>&1; fi
/venv/bin/python _demo.py >/tmp/demo_mut.$sid.out 2>&1; rc_mut=$?
rm -f _demo.py
tests=$(/venv/bin/python -m pytest -q -p no:cacheprovider --timeout=900 2>&1 | tail -1)
git diff > /tmp/confirmed.$sid.diff
git checkout -q -- .
if [ $native -gt 0 ]; then /venv/bin/python setup.py build_ext --inplace -q >/dev/null 2>&1; fi
echo "demo clean rc=$rc_clean, demo mutated rc=$rc_mut (FAIL printed: $(grep -c FAIL /tmp/demo_mut.$sid.out)), tests with change: $tests"
ok=0
if [ $rc_clean = 0 ] && { [ $rc_mut != 0 ] || grep -q FAIL /tmp/demo_mut.$sid.out; } && echo "$tests" | grep -q "430 passed"; then ok=1; fi
if [ $ok = 1 ]; then
  d=/verif/seeded/$sid; mkdir -p $d
  cp /tmp/confirmed.$sid.diff $d/patch.diff; cp $sd/demo.py $d/demo.py; cp $sd/notes.md $d/notes.md 2>/dev/null
  cat > $d/meta.json <<EOM
{
 "seed_id": "$sid",
 "property": "$prop",
 "base_commit": "$head",
 "needs_to_manifest": $(python3 -c "import json,sys,re; t=open('$sd/notes.md').read() if __import__('os').path.exists('$sd/notes.md') else ''; print(json.dumps(t[:1500]))"),
 "confirmed": {"demo_rc_unmodified": $rc_clean, "demo_rc_with_change": $rc_mut, "test_suite_with_change": "$tests", "how": "tools/confirm_seed.sh in scratch worktree $wt (rebuilt extensions when native files change)"},
 "native": $native
}
EOM
  echo "CONFIRMED -> $d"
else
  echo "NOT CONFIRMED"; tail -5 /tmp/demo_clean.$sid.out; echo ---; tail -5 /tmp/demo_mut.$sid.out
fi
