#!/bin/bash
# tools/mut.sh <check-id> <tier> <file> <sed-expr> : apply a sed mutation to /repo, run the check, revert.
cid=$1; tier=$2; file=$3; expr=$4
cd /repo || exit 2
git diff --quiet || { echo "repo dirty"; exit 2; }
sed -i "$expr" "$file"
if git diff --quiet; then echo "MUTATION DID NOT APPLY"; exit 3; fi
git diff | grep '^[+-]' | grep -v '^+++\|^---'
cd /verif && ./check $cid --tier $tier 2>&1 | grep -v "^  monitors" | cut -c1-400 | head -12
rc=${PIPESTATUS[0]}
git -C /repo checkout -- .
echo "mut rc=$rc"
