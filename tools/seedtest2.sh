#!/bin/bash
# tools/seedtest2.sh <patch.diff> <check-id> [tier] : like seedtest.sh, but applies the patch to a scratch worktree of /repo
# (outside /repo and /verif) and points the check at it with WV_REPO, so /repo itself is never touched and several
# seeds can be tested in parallel. Equivalent to: git -C /repo apply <patch>; ./check <id>; git -C /repo checkout -- .
patch=$1; cid=$2; tier=${3:-quick}
wt=$(mktemp -d /var/tmp/seedrepo.XXXXXX)
git -C /repo worktree add -q --detach "$wt" HEAD || exit 2
cd "$wt"
if ! git apply --3way "$patch" 2>/dev/null && ! git apply "$patch" 2>/tmp/apply.$$.err; then echo "PATCH DOES NOT APPLY ($patch)"; cat /tmp/apply.$$.err; cd /; git -C /repo worktree remove --force "$wt"; exit 3; fi
cd /verif && WV_REPO="$wt" ./check $cid --tier $tier 2>&1 | grep -v "^  monitors" | cut -c1-330 | head -8
rc=${PIPESTATUS[0]}
cd /; git -C /repo worktree remove --force "$wt"
echo "seedtest rc=$rc ($patch vs $cid)"
