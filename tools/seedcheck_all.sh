#!/bin/bash
# tools/seedcheck_all.sh [streams] : regression run of every confirmed seeded change under seeded/ against the quick tier of the
# check(s) named in its meta.json ("check" key, default: its property). Uses seedtest2.sh (scratch worktree + WV_REPO), so /repo
# is never touched. Writes /verif/seeded/RESULTS.tsv: seed, check, rc (1 = caught), mechanisms.
streams=${1:-3}
cd /verif
ls -d seeded/C??-* | sort > /tmp/seedcheck.list
split -n l/$streams -d /tmp/seedcheck.list /tmp/seedcheck.part.
for part in /tmp/seedcheck.part.*; do
  ( while read d; do
      sid=$(basename $d)
      chk=$(python3 -c "import json;m=json.load(open('$d/meta.json'));print(m.get('check') or m['property'])")
      out=$(tools/seedtest2.sh /verif/$d/patch.diff $chk 2>&1)
      rc=$(echo "$out" | sed -n 's/^seedtest rc=\([0-9]*\).*/\1/p')
      if echo "$out" | grep -q "PATCH DOES NOT APPLY"; then rc=NA; fi
      mech=$(echo "$out" | grep -o "mechanism=[^ ]*" | sort -u | sed 's/mechanism=//' | tr '\n' ' ')
      printf "%s\t%s\t%s\t%s\n" "$sid" "$chk" "$rc" "$mech"
    done < $part ) > $part.out 2>&1 &
done
wait
cat /tmp/seedcheck.part.*.out | sort > seeded/RESULTS.tsv
rm -f /tmp/seedcheck.part.* /tmp/seedcheck.list
awk -F'\t' '{n[$3]++} END{for(k in n) print "rc=" k ": " n[k]}' seeded/RESULTS.tsv
