#!/bin/bash
# confirm_batch4.sh Cnn ... : confirm the round-3 seeds /tmp/seed3-Cnn/{1,2} in /tmp/wt3-Cnn, store as Cnn-5 / Cnn-6
for c in "$@"; do
  ( wt=/tmp/wt3-$c; git -C $wt checkout -q -- . 2>/dev/null; git -C $wt reset -q --hard 2>/dev/null; rm -f $wt/_demo.py $wt/.built_at
    for k in 1 2; do echo "== $c-$((k+4))"; /verif/tools/confirm_seed.sh /tmp/seed3-$c/$k $wt $c-$((k+4)) $c; done ) > /tmp/confirm3-$c.log 2>&1 &
done
wait
