#!/bin/bash
# tools/reconfirm.sh <seed-id> ... : re-confirm (re-based) seeds against /repo's HEAD in a scratch worktree: demo passes on the
# unmodified tree, fails with the patch, the repository's tests still pass with it. Python-only patches use the cached build of HEAD;
# native patches rebuild in place. Records the outcome in seeded/<id>/meta.json ("reconfirmed").
key=$(cd /verif && /venv/bin/python -c 'from wv import build; print(build.ensure("plain"))')
for sid in "$@"; do
  d=/verif/seeded/$sid; wt=$(mktemp -d /var/tmp/reconf.XXXXXX)
  git -C /repo worktree add -q --detach $wt HEAD || exit 2
  (cd $key && find . -name "*.so" -exec cp {} $wt/{} \;)
  cd $wt; cp $d/demo.py _demo.py
  /venv/bin/python _demo.py >/tmp/reconf_clean.$sid.out 2>&1; rc_clean=$?
  git apply $d/patch.diff || { echo "$sid PATCH DOES NOT APPLY"; cd /; git -C /repo worktree remove --force $wt; continue; }
  if grep -qE '^\+\+\+ b/.*\.(pyx|pxd|cpp|h)$' $d/patch.diff; then /venv/bin/python setup.py build_ext --inplace -q >/dev/null 2>&1; fi
  /venv/bin/python _demo.py >/tmp/reconf_mut.$sid.out 2>&1; rc_mut=$?
  rm -f _demo.py
  tests=$(/venv/bin/python -m pytest -q -p no:cacheprovider --timeout=900 2>&1 | tail -1)
  cd /; git -C /repo worktree remove --force $wt
  head=$(git -C /repo rev-parse --short HEAD)
  echo "$sid: demo clean rc=$rc_clean, with change rc=$rc_mut, tests: $tests"
  python3 - "$d/meta.json" "$head" "$rc_clean" "$rc_mut" "$tests" <<'PY'
import json,sys
p,head,a,b,t=sys.argv[1:6]
m=json.load(open(p))
m['reconfirmed']={"on":head,"demo_rc_unmodified":int(a),"demo_rc_with_change":int(b),"test_suite_with_change":t,"how":"tools/reconfirm.sh (scratch worktree of /repo HEAD)"}
json.dump(m,open(p,'w'),indent=1)
PY
done
