#!/bin/bash
# confirm_batch2.sh <prop>:<seeddir> ...
for spec in "$@"; do
  c=${spec%%:*}; sd=${spec##*:}
  ( git -C /tmp/wt-$c checkout -q -- . 2>/dev/null; git -C /tmp/wt-$c reset -q --hard 2>/dev/null; rm -f /tmp/wt-$c/_demo.py /tmp/wt-$c/.built_at
    for k in 1 2; do echo "== $c-$k"; /verif/tools/confirm_seed.sh $sd/$k /tmp/wt-$c $c-$k $c; done ) > /tmp/confirm-$c.log 2>&1 &
done
wait
