#!/bin/bash
# confirm_batch6.sh Cnn ... : confirm the round-6 seeds /tmp/seed6-Cnn/{1,2} in /tmp/wt6-Cnn, store as Cnn-11 / Cnn-12, then run the quick check against each
for c in "$@"; do
  ( wt=/tmp/wt6-$c; git -C $wt checkout -q -- . 2>/dev/null; git -C $wt reset -q --hard 2>/dev/null; rm -f $wt/_demo.py
    for k in 1 2; do sid=$c-$((k+10)); echo "== $sid"; /verif/tools/confirm_seed.sh /tmp/seed6-$c/$k $wt $sid $c
      if [ -d /verif/seeded/$sid ]; then /verif/tools/seedtest2.sh /verif/seeded/$sid/patch.diff $c; fi
    done ) > /tmp/confirm6-$c.log 2>&1 &
done
wait
for c in "$@"; do echo "#### $c"; grep -E "^== |demo clean|CONFIRMED|NOT CONFIRMED|seedtest rc|PATCH DOES NOT|mechanism=" /tmp/confirm6-$c.log | cut -c1-260; done
