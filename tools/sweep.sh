#!/bin/bash
# tools/sweep.sh <tier> <seed> [ids...] : run checks one after another, print the summary line and any alarm per check.
tier=$1; seed=$2; shift 2
ids="$@"; [ -z "$ids" ] && ids="C01 C02 C03 C04 C05 C06 C07 C08 C09 C10 C11 C12 C13 C14 C15 C16 C17 C18 C19 C20"
cd "$(dirname "$0")/.." || exit 2
for c in $ids; do
  VERIF_SEED=$seed ./check $c --tier $tier > /tmp/sweep-$tier-$seed-$c.log 2>&1; rc=$?
  echo "rc=$rc $(head -1 /tmp/sweep-$tier-$seed-$c.log | cut -c1-220)"
  grep -E "^(VIOLATION|KNOWN-FINDING|INCONCLUSIVE)" /tmp/sweep-$tier-$seed-$c.log | head -6 | cut -c1-300
  grep -A1 "^VIOLATION" /tmp/sweep-$tier-$seed-$c.log | grep "mechanism" | head -4 | cut -c1-400
done
