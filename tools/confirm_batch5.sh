#!/bin/bash
# confirm_batch5.sh Cnn ... : confirm the round-4 seeds /tmp/seed4-Cnn/{1,2} in /tmp/wt4-Cnn, store as Cnn-7 / Cnn-8
for c in "$@"; do
  ( wt=/tmp/wt4-$c; git -C $wt checkout -q -- . 2>/dev/null; git -C $wt reset -q --hard 2>/dev/null; rm -f $wt/_demo.py $wt/.built_at
    for k in 1 2; do echo "== $c-$((k+6))"; /verif/tools/confirm_seed.sh /tmp/seed4-$c/$k $wt $c-$((k+6)) $c; done ) > /tmp/confirm4-$c.log 2>&1 &
done
wait
