#!/bin/bash
# Run the repository's own test suite against an overlay build of /repo's current working tree
# (the in-tree .so files may be stale). Extra args are passed to pytest.
set -e
D=$(mktemp -d /var/tmp/repotests.XXXXXX)
trap 'rm -rf "$D"' EXIT
cd /verif
/venv/bin/python - "$D" <<'PY'
import sys
from wv import build
build.overlay("plain", sys.argv[1])
PY
ln -s /repo/tests "$D/tests"
cp /repo/pyproject.toml /repo/tox.ini "$D/" 2>/dev/null || true
cd "$D"
PYTHONPATH="$D" /venv/bin/python -c "import whatshap,sys; assert whatshap.__file__.startswith('$D'), whatshap.__file__"
PYTHONPATH="$D" /venv/bin/python -m pytest -q -p no:cacheprovider --timeout=900 "$@" 2>&1 | tail -40
