#!/bin/bash
# confirm_batch8.sh Cnn ... : confirm the round-7 seeds /tmp/seed7-Cnn/{1,2} in /tmp/wt7-Cnn, store as Cnn-13 / Cnn-14, then run the quick check against each
for c in "$@"; do
  ( wt=/tmp/wt7-$c; git -C $wt checkout -q -- . 2>/dev/null; git -C $wt reset -q --hard 2>/dev/null; rm -f $wt/_demo.py
    for k in 1 2; do sid=$c-$((k+12)); echo "== $sid"; [ -f /tmp/seed7-$c/$k/patch.diff ] || { echo "no patch"; continue; }
      /verif/tools/confirm_seed.sh /tmp/seed7-$c/$k $wt $sid $c
      if [ -d /verif/seeded/$sid ]; then /verif/tools/seedtest2.sh /verif/seeded/$sid/patch.diff $c; fi
    done ) > /tmp/confirm7-$c.log 2>&1 &
done
wait
for c in "$@"; do echo "#### $c"; grep -E "^== |demo clean|CONFIRMED|NOT CONFIRMED|seedtest rc|PATCH DOES NOT|mechanism=|^C[0-9]+ tier" /tmp/confirm7-$c.log | cut -c1-260; done
