#!/bin/bash
# tools/confirm_batch.sh C01 C03 ... : confirm seeds 1 and 2 of each property in parallel (one worktree per property)
for c in "$@"; do
  ( git -C /tmp/wt-$c checkout -q -- . 2>/dev/null; rm -f /tmp/wt-$c/_demo.py /tmp/wt-$c/.built_at
    for k in 1 2; do echo "== $c-$k"; /verif/tools/confirm_seed.sh /tmp/seed-$c/$k /tmp/wt-$c $c-$k $c; done ) > /tmp/confirm-$c.log 2>&1 &
done
wait
