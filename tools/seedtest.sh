#!/bin/bash
# tools/seedtest.sh <patch.diff> <check-id> [tier] : apply a seeded patch to /repo (working tree only), run the check, undo.
patch=$1; cid=$2; tier=${3:-quick}
cd /repo || exit 2
if ! git diff --quiet; then echo "repo has uncommitted changes; stash/commit first"; exit 2; fi
if ! git apply --3way "$patch" 2>/tmp/apply.err && ! git apply "$patch" 2>>/tmp/apply.err; then echo "PATCH DOES NOT APPLY"; cat /tmp/apply.err; git reset -q --hard HEAD; exit 3; fi
git reset -q
cd /verif && ./check $cid --tier $tier 2>&1 | grep -v "^  monitors" | cut -c1-330 | head -8
rc=${PIPESTATUS[0]}
git -C /repo checkout -- .
git -C /repo status --short | head -3
echo "seedtest rc=$rc"
